//! C39 — dropping or shutting down a connection releases it correctly.

use crate::harness::peer::RawPeer;
use crate::harness::sched::Sched;
use crate::harness::util::*;
use crate::harness::wire::Wire;
use crate::props::c24::{run_task, IfB};

use serde_json::json;
use std::collections::HashMap;
use std::sync::{Arc, Mutex};
use std::task::{Poll, Waker};
use vcommon::Ctx;
use vref::msg::*;
use vref::prng::{fnv, Rng};
use vref::val::Val;
use zbus::{Connection, MessageStream};

#[derive(Default)]
pub struct Gates {
    open: HashMap<u32, bool>,
    wakers: HashMap<u32, Waker>,
    pub log: Vec<String>,
}

pub type SharedGates = Arc<Mutex<Gates>>;

pub fn open_gate(g: &SharedGates, id: u32) {
    let mut g = g.lock().unwrap();
    g.open.insert(id, true);
    if let Some(w) = g.wakers.remove(&id) {
        w.wake();
    }
}

pub async fn wait_gate(g: SharedGates, id: u32) {
    std::future::poll_fn(move |cx| {
        let mut g = g.lock().unwrap();
        if g.open.get(&id).copied().unwrap_or(false) {
            Poll::Ready(())
        } else {
            g.wakers.insert(id, cx.waker().clone());
            Poll::Pending
        }
    })
    .await
}

pub struct Gated {
    pub gates: SharedGates,
}

#[zbus::interface(name = "t.Gated")]
impl Gated {
    async fn wait(&self, id: u32) -> u32 {
        self.gates.lock().unwrap().log.push(format!("start {id}"));
        wait_gate(self.gates.clone(), id).await;
        self.gates.lock().unwrap().log.push(format!("end {id}"));
        id
    }
}

enum Handle {
    Conn(Connection),
    Stream(MessageStream),
    Proxy(zbus::Proxy<'static>),
    SignalStream(zbus::proxy::SignalStream<'static>),
}

fn drop_case(ctx: &mut Ctx, index: u64, rng: &mut Rng) {
    ctx.count("evaluations", 1);
    ctx.count("class:drop", 1);
    let wire = Wire::new(rng.next_u64());
    let mut sched = Sched::new(Rng::new(rng.next_u64()));
    let conn = match connect_authenticated(&mut sched, &wire) {
        Ok(c) => c,
        Err(e) => {
            ctx.finding(index, "harness-or-hang", "-", "connect", json!({"error": e}));
            return;
        }
    };
    let w2 = wire.clone();
    sched.add_net(Box::new(move || w2.release_one()));
    let mut peer = RawPeer::new(&wire);
    let mut handles: Vec<(String, Handle)> = Vec::new();
    for k in 0..rng.usize_below(4) {
        handles.push((format!("clone{k}"), Handle::Conn(conn.clone())));
    }
    let nstreams = rng.usize_below(4);
    for k in 0..nstreams {
        if rng.bool() {
            handles.push((format!("unfiltered{k}"), Handle::Stream(MessageStream::from(&conn))));
        } else {
            let c2 = conn.clone();
            let rule = *rng.pick(&["type='signal',interface='q.A'", "type='signal'", "type='signal',member='M'"]);
            if let Some(Ok(s)) = run_task(&mut sched, async move { MessageStream::for_match_rule(rule, &c2, Some(2)).await }) {
                if rng.chance(1, 3) {
                    handles.push((format!("filtered{k}-clone"), Handle::Stream(s.clone())));
                }
                handles.push((format!("filtered{k}"), Handle::Stream(s)));
            }
        }
    }
    let nproxies = rng.usize_below(3);
    for k in 0..nproxies {
        let c2 = conn.clone();
        let cache = rng.bool();
        // a proxy with a property cache sends GetAll: the peer answers it (or not: still in flight at drop time)
        let answer = rng.bool();
        let px: Slot<zbus::Proxy<'static>> = slot();
        let px2 = px.clone();
        let t = sched.spawn("proxy-build", async move {
            let b = zbus::proxy::Builder::<zbus::Proxy<'static>>::new(&c2).destination("p.q").unwrap().path("/p").unwrap().interface("p.If").unwrap();
            let b = if cache { b.cache_properties(zbus::proxy::CacheProperties::Yes) } else { b.cache_properties(zbus::proxy::CacheProperties::No) };
            if let Ok(p) = b.build().await {
                *px2.borrow_mut() = Some(p);
            }
        });
        sched.run_until_done(t);
        sched.run_to_quiescence();
        if !sched.is_done(t) {
            // a build still waiting at quiescence would keep its connection handle alive: give up on it
            sched.cancel(t);
            ctx.count("proxy_builds_abandoned", 1);
        }
        if answer {
            for m in peer.pump() {
                if m.msg.member() == Some("GetAll") {
                    let s = peer.serial();
                    peer.send(&Msg::method_return(s, m.msg.serial).with_body(vec![Val::Dict(vref::sig::Sig::S, vref::sig::Sig::V, vec![])]), vec![], &[]);
                }
            }
        }
        let taken = px.borrow_mut().take();
        if let Some(p) = taken {
            if rng.bool() {
                let p2 = p.clone();
                if let Some(Ok(ss)) = run_task(&mut sched, async move { p2.receive_signal("Sig").await }) {
                    handles.push((format!("signalstream{k}"), Handle::SignalStream(ss)));
                }
            }
            handles.push((format!("proxy{k}-cache={cache}"), Handle::Proxy(p)));
        }
    }
    // traffic in flight
    for _ in 0..rng.usize_below(4) {
        let s = peer.serial();
        peer.send(&Msg::signal(s, "/p", *rng.pick(&["q.A", "p.If"]), *rng.pick(&["M", "Sig"])).with_sender(":1.3").with_body(vec![Val::U(s)]), vec![], &[]);
    }
    handles.push(("original".into(), Handle::Conn(conn)));
    rng.shuffle(&mut handles);
    let names: Vec<String> = handles.iter().map(|h| h.0.clone()).collect();
    let mut early_eof_at: Option<usize> = None;
    let total = handles.len();
    for (k, (_, h)) in handles.into_iter().enumerate() {
        sched.run_steps(rng.below(6));
        if wire.peer_sees_eof() && early_eof_at.is_none() {
            early_eof_at = Some(k);
        }
        drop(h);
    }
    let q = sched.run_to_quiescence();
    ctx.distinct(sched.fingerprint() ^ fnv(&names.join(",")));
    let eof = wire.peer_sees_eof();
    ctx.count("handles_dropped", total as u64);
    if early_eof_at.is_some() {
        // recorded, not judged: the property only speaks about the last handle
        ctx.count("eof_seen_before_last_drop", 1);
    }
    let desc = json!({"drop_order": names, "quiescent": q, "peer_sees_eof": eof, "trace": sched.trace_string()});
    if !eof {
        let what = if names.iter().any(|n| n.starts_with("signalstream")) { "with-signal-stream" } else if names.iter().any(|n| n.starts_with("proxy")) { "with-proxy" } else if names.iter().any(|n| n.contains("filtered")) { "with-streams" } else { "connections-only" };
        ctx.finding(index, "transport-not-closed-after-last-handle-dropped", what, "-", desc);
    }
    // the first drop cases of every shard are written out (Ctx caps the number per shard)
    ctx.sample(json!({"class": "drop", "drop_order": names, "peer_saw_eof_before_last_drop": early_eof_at, "peer_sees_eof_at_quiescence": eof, "schedule": sched.trace_string().chars().take(160).collect::<String>()}));
}

fn shutdown_case(ctx: &mut Ctx, index: u64, rng: &mut Rng) {
    ctx.count("evaluations", 1);
    ctx.count("class:graceful-shutdown", 1);
    let wire = Wire::new(rng.next_u64());
    let mut sched = Sched::new(Rng::new(rng.next_u64()));
    let bias = *rng.pick(&[(4u64, 3u64, 2u64), (6, 1, 6), (1, 6, 1)]);
    sched.w_ex = bias.0;
    sched.w_h = bias.1;
    sched.w_net = bias.2;
    let conn = match connect_authenticated(&mut sched, &wire) {
        Ok(c) => c,
        Err(e) => {
            ctx.finding(index, "harness-or-hang", "-", "connect", json!({"error": e}));
            return;
        }
    };
    let w2 = wire.clone();
    sched.add_net(Box::new(move || w2.release_one()));
    let gates: SharedGates = Arc::new(Mutex::new(Gates::default()));
    let c2 = conn.clone();
    let g2 = gates.clone();
    let ok = run_task(&mut sched, async move { c2.object_server().at("/g", Gated { gates: g2 }).await.is_ok() && c2.object_server().at("/b", IfB { tag: 1 }).await.is_ok() });
    if ok != Some(true) {
        ctx.finding(index, "setup-did-not-complete", "-", "-", json!({}));
        return;
    }
    sched.run_to_quiescence();
    let mut peer = RawPeer::new(&wire);
    let nh = 1 + rng.usize_below(3);
    let mut serials = Vec::new();
    for id in 1..=nh as u32 {
        let s = peer.serial();
        peer.send(&Msg::method_call(s, "/g", Some("t.Gated"), "Wait").with_body(vec![Val::U(id)]), vec![], &[]);
        serials.push((id, s));
    }
    sched.run_to_quiescence();
    let started = gates.lock().unwrap().log.iter().filter(|l| l.starts_with("start")).count();
    if started != nh {
        ctx.finding(index, "handlers-did-not-start", "-", "-", json!({"started": started, "expected": nh, "log": gates.lock().unwrap().log.clone()}));
        return;
    }
    // shut down with the handlers in flight: 1..3 handles wait in graceful_shutdown() at the same time, and sometimes one
    // more plain handle stays alive for a while
    let nwaiters = 1 + rng.usize_below(3);
    let mut extra: Option<Connection> = if rng.chance(1, 3) { Some(conn.clone()) } else { None };
    let had_extra = extra.is_some();
    let finished = Arc::new(Mutex::new(0usize));
    let done = Arc::new(Mutex::new(false));
    let mut t = 0;
    let mut waiter_tasks = Vec::new();
    let mut conn = Some(conn);
    for w in 0..nwaiters {
        let c = if w + 1 == nwaiters { conn.take().unwrap() } else { conn.as_ref().unwrap().clone() };
        let (d2, f2) = (done.clone(), finished.clone());
        t = sched.spawn("graceful-shutdown", async move {
            c.graceful_shutdown().await;
            let mut f = f2.lock().unwrap();
            *f += 1;
            if *f == nwaiters {
                *d2.lock().unwrap() = true;
            }
        });
        waiter_tasks.push(t);
    }
    ctx.count(&format!("class:shutdown-waiters-{nwaiters}"), 1);
    sched.run_to_quiescence();
    if *finished.lock().unwrap() > 0 {
        ctx.finding(index, "graceful-shutdown-completed-with-handlers-in-flight", "-", "-", json!({"handlers": nh, "waiters": nwaiters, "finished": *finished.lock().unwrap()}));
        return;
    }
    let desc0 = json!({"handlers": nh, "log": gates.lock().unwrap().log.clone(), "trace": sched.trace_string()});
    if *finished.lock().unwrap() > 0 {
        ctx.finding(index, "graceful-shutdown-completed-with-handlers-in-flight", "-", "-", desc0.clone());
        return;
    }
    if wire.peer_sees_eof() {
        ctx.finding(index, "transport-closed-with-handlers-in-flight", "-", "-", desc0);
        return;
    }
    // open the gates one by one in random order
    let mut order: Vec<u32> = (1..=nh as u32).collect();
    rng.shuffle(&mut order);
    for (k, id) in order.iter().enumerate() {
        open_gate(&gates, *id);
        sched.run_to_quiescence();
        let finished_now = *finished.lock().unwrap() > 0;
        if finished_now && k + 1 < order.len() {
            ctx.finding(index, "graceful-shutdown-completed-with-handlers-in-flight", "some-gates-still-closed", "-", json!({"opened": k + 1, "handlers": nh}));
            return;
        }
    }
    if extra.is_some() {
        // every handler has finished, but another handle is still alive: the shutdown must keep waiting
        ctx.count("class:shutdown-with-another-handle-alive", 1);
        if *finished.lock().unwrap() > 0 || wire.peer_sees_eof() {
            ctx.finding(index, "graceful-shutdown-completed-with-a-handle-alive", "-", "-", json!({"handlers": nh, "waiters": nwaiters, "finished": *finished.lock().unwrap(), "peer_sees_eof": wire.peer_sees_eof()}));
            return;
        }
        drop(extra.take());
        sched.run_to_quiescence();
    }
    let replies = peer.pump();
    ctx.distinct(sched.fingerprint() ^ nh as u64 ^ (nwaiters as u64) << 8);
    let desc = json!({"handlers": nh, "waiters": nwaiters, "waiters_finished": *finished.lock().unwrap(), "extra_handle": had_extra, "log": gates.lock().unwrap().log.clone(), "replies": replies.len(), "peer_sees_eof": wire.peer_sees_eof(), "trace": sched.trace_string()});
    if !*done.lock().unwrap() || waiter_tasks.iter().any(|t| !sched.is_done(*t)) {
        let reason = if *finished.lock().unwrap() == 0 { "no-waiter-completed" } else { "some-waiters-never-completed" };
        ctx.finding(index, "graceful-shutdown-never-completes", reason, &format!("waiters-{nwaiters}"), desc.clone());
    }
    for (id, s) in &serials {
        let r: Vec<_> = replies.iter().filter(|r| r.msg.reply_serial() == Some(*s)).collect();
        if r.len() != 1 || r[0].msg.body.first() != Some(&Val::U(*id)) {
            ctx.finding(index, "in-flight-handler-reply-missing", "-", "-", desc.clone());
            break;
        }
    }
    if !wire.peer_sees_eof() {
        ctx.finding(index, "transport-not-closed-after-graceful-shutdown", "-", "-", desc);
    }
    ctx.sample(json!({"class": "graceful-shutdown", "handlers": nh, "waiters": nwaiters, "extra_handle": had_extra, "gate_open_order": order, "handler_log": gates.lock().unwrap().log.clone(), "replies_on_wire": replies.len(), "peer_sees_eof": wire.peer_sees_eof(), "schedule": sched.trace_string().chars().take(160).collect::<String>()}));
}

pub fn run(ctx: &mut Ctx) {
    let n = ctx.budget(3000, 150_000);
    for i in 0..n {
        if !ctx.want(i) {
            continue;
        }
        let mut rng = ctx.rng(i);
        if i % 3 == 0 {
            ctx.guarded(i, "shutdown", || json!({}), |ctx| shutdown_case(ctx, i, &mut rng));
        } else {
            ctx.guarded(i, "drop", || json!({}), |ctx| drop_case(ctx, i, &mut rng));
        }
    }
}
