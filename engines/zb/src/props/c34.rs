//! C34 — introspection XML documents round-trip through the XML model.

use serde_json::json;
use vcommon::Ctx;
use vref::names::*;
use vref::prng::{fnv, Rng};
use vref::sig::{gen_sig, GenOpts};
use zbus_xml::{ArgDirection, Node, PropertyAccess};

#[derive(Clone, Debug, PartialEq)]
struct TAnn {
    name: String,
    value: String,
}
#[derive(Clone, Debug, PartialEq)]
struct TArg {
    name: Option<String>,
    ty: String,
    dir: Option<bool>, // Some(true) = in
    anns: Vec<TAnn>,
}
#[derive(Clone, Debug, PartialEq)]
struct TMethod {
    name: String,
    args: Vec<TArg>,
    anns: Vec<TAnn>,
}
#[derive(Clone, Debug, PartialEq)]
struct TProp {
    name: String,
    ty: String,
    access: u8,
    anns: Vec<TAnn>,
}
#[derive(Clone, Debug, PartialEq)]
struct TIface {
    name: String,
    methods: Vec<TMethod>,
    signals: Vec<TMethod>,
    props: Vec<TProp>,
    anns: Vec<TAnn>,
}
#[derive(Clone, Debug, PartialEq)]
struct TNode {
    name: Option<String>,
    ifaces: Vec<TIface>,
    nodes: Vec<TNode>,
}

fn text(rng: &mut Rng) -> String {
    let n = rng.usize_below(10);
    let mut s = String::new();
    for _ in 0..n {
        s.push(match rng.below(16) {
            0 => '<',
            1 => '>',
            2 => '&',
            3 => '"',
            4 => '\'',
            5 => 'é',
            6 => '日',
            7 => ' ',
            8 => ';',
            9 => '-',
            10 => ']',
            _ => (b'a' + rng.below(26) as u8) as char,
        });
    }
    s
}

fn gen_anns(rng: &mut Rng) -> Vec<TAnn> {
    (0..rng.usize_below(3)).map(|_| TAnn { name: gen_interface_name(rng), value: text(rng) }).collect()
}

fn gen_type(rng: &mut Rng) -> String {
    let o = GenOpts { max_depth: 3, max_fields: 3, allow_maybe: false, allow_fd: true, allow_variant: true };
    gen_sig(rng, &o, 0).to_sig_string()
}

fn gen_args(rng: &mut Rng, signal: bool) -> Vec<TArg> {
    (0..rng.usize_below(5))
        .map(|_| TArg {
            name: if rng.bool() { Some(gen_member_name(rng)) } else { None },
            ty: gen_type(rng),
            dir: if signal { None } else if rng.chance(1, 3) { None } else { Some(rng.bool()) },
            anns: if rng.chance(1, 4) { gen_anns(rng) } else { vec![] },
        })
        .collect()
}

fn gen_iface(rng: &mut Rng, big: bool) -> TIface {
    let nm = if big { 1200 + rng.usize_below(1500) } else { rng.usize_below(4) };
    TIface {
        name: gen_interface_name(rng),
        methods: (0..nm).map(|_| TMethod { name: gen_member_name(rng), args: gen_args(rng, false), anns: gen_anns(rng) }).collect(),
        signals: (0..rng.usize_below(3)).map(|_| TMethod { name: gen_member_name(rng), args: gen_args(rng, true), anns: gen_anns(rng) }).collect(),
        props: (0..rng.usize_below(4)).map(|_| TProp { name: gen_member_name(rng), ty: gen_type(rng), access: rng.below(3) as u8, anns: gen_anns(rng) }).collect(),
        anns: gen_anns(rng),
    }
}

fn gen_node(rng: &mut Rng, depth: usize, big: bool) -> TNode {
    TNode {
        name: if depth == 0 { if rng.bool() { Some("/root/obj".into()) } else { None } } else { Some(gen_member_name(rng)) },
        ifaces: (0..rng.usize_below(3) + if big && depth == 0 { 1 } else { 0 }).map(|_| gen_iface(rng, big && depth == 0)).collect(),
        nodes: if depth >= 4 { vec![] } else { (0..rng.usize_below(3)).map(|_| gen_node(rng, depth + 1, false)).collect() },
    }
}

fn esc(s: &str) -> String {
    s.replace('&', "&amp;").replace('<', "&lt;").replace('>', "&gt;").replace('"', "&quot;").replace('\'', "&apos;")
}

fn anns_xml(a: &[TAnn], o: &mut String, ind: &str) {
    for x in a {
        o.push_str(&format!("{ind}<annotation name=\"{}\" value=\"{}\"/>\n", esc(&x.name), esc(&x.value)));
    }
}

fn args_xml(a: &[TArg], o: &mut String, ind: &str) {
    for x in a {
        o.push_str(&format!("{ind}<arg"));
        if let Some(n) = &x.name {
            o.push_str(&format!(" name=\"{}\"", esc(n)));
        }
        o.push_str(&format!(" type=\"{}\"", esc(&x.ty)));
        if let Some(d) = x.dir {
            o.push_str(&format!(" direction=\"{}\"", if d { "in" } else { "out" }));
        }
        if x.anns.is_empty() {
            o.push_str("/>\n");
        } else {
            o.push_str(">\n");
            anns_xml(&x.anns, o, &format!("{ind}  "));
            o.push_str(&format!("{ind}</arg>\n"));
        }
    }
}

fn node_xml(n: &TNode, o: &mut String, ind: &str, top: bool) {
    if top {
        o.push_str("<!DOCTYPE node PUBLIC \"-//freedesktop//DTD D-BUS Object Introspection 1.0//EN\"\n \"http://www.freedesktop.org/standards/dbus/1.0/introspect.dtd\">\n");
    }
    o.push_str(&format!("{ind}<node"));
    if let Some(nm) = &n.name {
        o.push_str(&format!(" name=\"{}\"", esc(nm)));
    }
    o.push_str(">\n");
    for i in &n.ifaces {
        o.push_str(&format!("{ind}  <interface name=\"{}\">\n", esc(&i.name)));
        let ind2 = format!("{ind}    ");
        for m in &i.methods {
            o.push_str(&format!("{ind2}<method name=\"{}\">\n", esc(&m.name)));
            args_xml(&m.args, o, &format!("{ind2}  "));
            anns_xml(&m.anns, o, &format!("{ind2}  "));
            o.push_str(&format!("{ind2}</method>\n"));
        }
        for m in &i.signals {
            o.push_str(&format!("{ind2}<signal name=\"{}\">\n", esc(&m.name)));
            args_xml(&m.args, o, &format!("{ind2}  "));
            anns_xml(&m.anns, o, &format!("{ind2}  "));
            o.push_str(&format!("{ind2}</signal>\n"));
        }
        for p in &i.props {
            o.push_str(&format!("{ind2}<property name=\"{}\" type=\"{}\" access=\"{}\">\n", esc(&p.name), esc(&p.ty), ["read", "write", "readwrite"][p.access as usize]));
            anns_xml(&p.anns, o, &format!("{ind2}  "));
            o.push_str(&format!("{ind2}</property>\n"));
        }
        anns_xml(&i.anns, o, &ind2);
        o.push_str(&format!("{ind}  </interface>\n"));
    }
    for c in &n.nodes {
        node_xml(c, o, &format!("{ind}  "), false);
    }
    o.push_str(&format!("{ind}</node>\n"));
}

fn model_of(n: &Node<'_>) -> TNode {
    let anns = |a: &[zbus_xml::Annotation]| a.iter().map(|x| TAnn { name: x.name().to_string(), value: x.value().to_string() }).collect::<Vec<_>>();
    let args = |a: &[zbus_xml::Arg]| {
        a.iter()
            .map(|x| TArg {
                name: x.name().map(|s| s.to_string()),
                ty: x.ty().inner().to_string(),
                dir: x.direction().map(|d| d == ArgDirection::In),
                anns: anns(x.annotations()),
            })
            .collect::<Vec<_>>()
    };
    TNode {
        name: n.name().map(|s| s.to_string()),
        ifaces: n
            .interfaces()
            .iter()
            .map(|i| TIface {
                name: i.name().to_string(),
                methods: i.methods().iter().map(|m| TMethod { name: m.name().to_string(), args: args(m.args()), anns: anns(m.annotations()) }).collect(),
                signals: i.signals().iter().map(|m| TMethod { name: m.name().to_string(), args: args(m.args()), anns: anns(m.annotations()) }).collect(),
                props: i
                    .properties()
                    .iter()
                    .map(|p| TProp {
                        name: p.name().to_string(),
                        ty: p.ty().inner().to_string(),
                        access: match p.access() {
                            PropertyAccess::Read => 0,
                            PropertyAccess::Write => 1,
                            PropertyAccess::ReadWrite => 2,
                        },
                        anns: anns(p.annotations()),
                    })
                    .collect(),
                anns: anns(i.annotations()),
            })
            .collect(),
        nodes: n.nodes().iter().map(model_of).collect(),
    }
}

fn count_elems(n: &TNode) -> usize {
    1 + n.ifaces.iter().map(|i| 1 + i.methods.iter().map(|m| 1 + m.args.len() + m.anns.len()).sum::<usize>() + i.signals.len() + i.props.len()).sum::<usize>()
        + n.nodes.iter().map(count_elems).sum::<usize>()
}

pub fn run(ctx: &mut Ctx) {
    let n = ctx.budget(4000, 200_000);
    for i in 0..n {
        if !ctx.want(i) {
            continue;
        }
        let mut rng = ctx.rng(i);
        let big = rng.chance(1, 40);
        let t = gen_node(&mut rng, 0, big);
        let elems = count_elems(&t);
        let note = format!("xml elems={elems}");
        ctx.guarded(i, &note, || json!({"elements": elems}), |ctx| {
            ctx.count("evaluations", 1);
            ctx.count(if elems > 4096 { "class:over-4096-elements" } else { "class:small" }, 1);
            let mut xml = String::new();
            node_xml(&t, &mut xml, "", true);
            ctx.distinct(fnv(&xml));
            let detail = |x: serde_json::Value| json!({"elements": elems, "xml_prefix": xml.chars().take(600).collect::<String>(), "info": x});
            // our document -> model
            let node = match Node::try_from(xml.as_str()) {
                Ok(n) => n,
                Err(e) => {
                    ctx.finding(i, "valid-document-rejected", "try_from-str", "-", detail(json!({"error": e.to_string()})));
                    return;
                }
            };
            if model_of(&node) != t {
                ctx.finding(i, "parsed-model-differs-from-document", "try_from-str", "-", detail(json!({})));
                return;
            }
            match Node::from_reader(xml.as_bytes()) {
                Ok(n2) if n2 == node => {}
                Ok(_) => ctx.finding(i, "from_reader-differs-from-try_from", "-", "-", detail(json!({}))),
                Err(e) => ctx.finding(i, "valid-document-rejected", "from_reader", "-", detail(json!({"error": e.to_string()}))),
            }
            // model -> document -> model
            let mut out: Vec<u8> = Vec::new();
            if let Err(e) = node.to_writer(&mut out) {
                ctx.finding(i, "to_writer-error", "-", "-", detail(json!({"error": e.to_string()})));
                return;
            }
            let written = String::from_utf8_lossy(&out).to_string();
            match Node::from_reader(&out[..]) {
                Ok(back) => {
                    if back != node {
                        let what = if model_of(&back) != t { "model" } else { "eq-only" };
                        ctx.finding(i, "written-document-reads-back-different", what, "-", detail(json!({"written_prefix": written.chars().take(600).collect::<String>()})));
                    }
                }
                Err(e) => ctx.finding(i, "written-document-rejected", "-", "-", detail(json!({"error": e.to_string(), "written_prefix": written.chars().take(600).collect::<String>()}))),
            }
            if i < 2 {
                ctx.sample(json!({"document": xml.chars().take(500).collect::<String>()}));
            }
        });
    }
}
