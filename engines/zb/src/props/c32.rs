//! C32 — a proxy's signal stream yields signals only from the name's current owner.
//!
//! The scripted bus owns the truth about who owns `t.svc.A`. While the stream
//! is being created the owner lookup reply is held back and ownership changes
//! are placed before it, right behind it (same read) or later; afterwards
//! rounds of events run at quiescent points: signals from the owner (broadcast,
//! routed by the registered rules), from former owners and strangers (sent
//! straight to the connection, as a bus delivers unicast signals), driver
//! ownership changes, and forged ownership-change signals from peers. The
//! stream must yield exactly the matching signals whose sender owned the name
//! when the bus routed them.

use crate::harness::bus::*;
use crate::harness::sched::Sched;
use crate::harness::util::*;
use crate::harness::wire::Wire;
use futures_lite::StreamExt;
use serde_json::json;
use std::cell::{Cell, RefCell};
use std::rc::Rc;
use vcommon::Ctx;
use vref::msg::*;
use vref::prng::{fnv, Rng};
use vref::val::Val;

const NAME: &str = "t.svc.A";
const PEERS: &[&str] = &[":1.7", ":1.8", ":1.9"];

#[derive(Clone, Debug)]
enum Ev {
    /// a matching or near-miss signal from `sender`; unicast = addressed to the connection
    Sig { sender: &'static str, path: &'static str, iface: &'static str, member: &'static str, unicast: bool },
    /// the bus changes the owner (driver NameOwnerChanged)
    Owner(Option<&'static str>),
    /// a peer sends a NameOwnerChanged look-alike straight to the connection
    Forged { claimed: Option<&'static str>, from: &'static str },
    /// driver NameOwnerChanged for another name, sent straight to the connection (a bus would not, but it is harmless)
    OtherName,
}

fn gen_ev(rng: &mut Rng, owner: Option<&str>) -> Ev {
    let r = rng.below(100);
    if r < 55 {
        // bias towards the interesting senders: current owner, and others unicast
        let sender = if rng.chance(1, 2) { owner.map(|o| *PEERS.iter().find(|p| **p == o).unwrap()).unwrap_or(":1.9") } else { *rng.pick(PEERS) };
        let exact = rng.chance(3, 4);
        Ev::Sig {
            sender,
            path: if exact || rng.bool() { "/p" } else { "/other" },
            iface: if exact || rng.bool() { "t.If" } else { "t.Other" },
            member: if exact || rng.bool() { "Sig" } else { "Tick" },
            unicast: Some(sender) != owner || rng.chance(1, 4),
        }
    } else if r < 75 {
        let new = match rng.below(4) {
            0 => None,
            k => Some(PEERS[(k - 1) as usize]),
        };
        Ev::Owner(new)
    } else if r < 95 {
        Ev::Forged { claimed: if rng.chance(1, 5) { None } else { Some(*rng.pick(PEERS)) }, from: *rng.pick(&[":1.9", ":1.99", ":1.8"]) }
    } else {
        Ev::OtherName
    }
}

struct Emitted {
    id: u32,
    expect: bool,
    desc: String,
}

/// The bus routes one event. Returns the record of a signal that a correct stream may have to yield.
fn emit(bus: &SharedBus, e: &Ev, next_id: &mut u32, all_members: bool, log: &mut Vec<String>) -> Option<Emitted> {
    let mut b = bus.borrow_mut();
    let unique = b.unique.clone();
    match e {
        Ev::Sig { sender, path, iface, member, unicast } => {
            *next_id += 1;
            let id = *next_id;
            let s = b.serial();
            let mut m = Msg::signal(s, path, iface, member).with_sender(sender).with_body(vec![Val::U(id)]);
            if *unicast {
                m = m.with_destination(&unique);
            }
            let owner = b.owners.get(NAME).cloned();
            let delivered = b.route_signal(&m);
            let matches = *path == "/p" && *iface == "t.If" && (all_members || *member == "Sig");
            let expect = delivered && matches && owner.as_deref() == Some(*sender);
            let desc = format!("#{id} {iface}.{member} at {path} from {sender}{} [owner {owner:?}; bus {}]{}", if *unicast { " (unicast)" } else { "" }, if delivered { "delivered" } else { "suppressed" }, if expect { " => must be yielded" } else { "" });
            log.push(desc.clone());
            Some(Emitted { id, expect, desc })
        }
        Ev::Owner(new) => {
            let cur = b.owners.get(NAME).cloned();
            if cur.as_deref() == *new {
                return None;
            }
            let d = b.name_owner_changed(NAME, *new);
            log.push(format!("bus: owner {cur:?} -> {new:?}{}", if d { "" } else { " (not delivered: no rule)" }));
            None
        }
        Ev::Forged { claimed, from } => {
            let s = b.serial();
            let cur = b.owners.get(NAME).cloned().unwrap_or_default();
            let m = Msg::signal(s, DRIVER_PATH, DRIVER, "NameOwnerChanged").with_sender(from).with_destination(&unique).with_body(vec![Val::S(NAME.into()), Val::S(cur), Val::S(claimed.unwrap_or("").into())]);
            b.route_signal(&m);
            log.push(format!("peer {from}: forged NameOwnerChanged claiming {claimed:?}"));
            None
        }
        Ev::OtherName => {
            let s = b.serial();
            let m = Msg::signal(s, DRIVER_PATH, DRIVER, "NameOwnerChanged").with_sender(DRIVER).with_destination(&unique).with_body(vec![Val::S("t.svc.Z".into()), Val::S("".into()), Val::S(":1.9".into())]);
            b.route_signal(&m);
            log.push("bus: NameOwnerChanged for t.svc.Z".into());
            None
        }
    }
}

fn case(ctx: &mut Ctx, index: u64, rng: &mut Rng) {
    ctx.count("evaluations", 1);
    let wire = Wire::new(rng.next_u64());
    let mut sched = Sched::new(Rng::new(rng.next_u64()));
    let bias = *rng.pick(&[(4u64, 3u64, 2u64), (6, 1, 6), (1, 6, 1), (2, 2, 6), (8, 2, 1), (1, 1, 8)]);
    sched.w_ex = bias.0;
    sched.w_h = bias.1;
    sched.w_net = bias.2;
    let bus: SharedBus = Rc::new(RefCell::new(FakeBus::new(&wire)));
    bus.borrow_mut().chunking = match rng.below(4) {
        0 => vec![],
        1 => vec![1 + rng.usize_below(12)],
        2 => vec![100 + rng.usize_below(400)],
        _ => vec![1 + rng.usize_below(200), 1 + rng.usize_below(50)],
    };
    let initial = match rng.below(3) {
        0 => None,
        _ => Some(":1.7"),
    };
    if let Some(o) = initial {
        bus.borrow_mut().owners.insert(NAME.into(), o.into());
    }
    bus.borrow_mut().defer_get_name_owner = true;
    let conn = match connect_bus(&mut sched, &wire, &bus) {
        Ok(c) => c,
        Err(e) => {
            ctx.finding(index, "harness-or-hang", "-", "connect", json!({"error": e}));
            return;
        }
    };
    let all_members = rng.chance(1, 4);
    let mut log: Vec<String> = vec![format!("initial owner {initial:?}; stream for {}", if all_members { "all signals" } else { "Sig" })];
    // another subscriber with a broad rule (so that the bus has a reason to deliver more than the proxy asks for)
    let broad = rng.chance(1, 3);
    let _broad_stream = if broad {
        let c2 = conn.clone();
        let s = crate::props::c24::run_task(&mut sched, async move { zbus::MessageStream::for_match_rule("type='signal'", &c2, Some(64)).await.ok() }).flatten();
        log.push("the connection also holds a type='signal' stream".into());
        s
    } else {
        None
    };
    // the stream under test
    let received: Rc<RefCell<Vec<u32>>> = Rc::new(RefCell::new(Vec::new()));
    let state = Rc::new(Cell::new(0u8));
    let (r2, s2, c2) = (received.clone(), state.clone(), conn.clone());
    let _task = sched.spawn("signal-stream", async move {
        let proxy = match zbus::proxy::Builder::<zbus::Proxy<'static>>::new(&c2).destination(NAME).unwrap().path("/p").unwrap().interface("t.If").unwrap().cache_properties(zbus::proxy::CacheProperties::No).build().await {
            Ok(p) => p,
            Err(_) => {
                s2.set(3);
                return;
            }
        };
        let r = if all_members { proxy.receive_all_signals().await } else { proxy.receive_signal("Sig").await };
        let mut stream = match r {
            Ok(s) => s,
            Err(_) => {
                s2.set(3);
                return;
            }
        };
        s2.set(1);
        while let Some(m) = stream.next().await {
            let id = m.body().deserialize::<(u32,)>().map(|b| b.0).unwrap_or(0);
            r2.borrow_mut().push(id);
        }
        s2.set(4);
    });
    // run until the owner lookup sits in the bus's inbox
    sched.run_to_quiescence();
    let pos = bus.borrow().inbox.iter().position(|c| c.msg.member() == Some("GetNameOwner"));
    let call = match pos {
        Some(i) => bus.borrow_mut().inbox.remove(i),
        None => {
            ctx.finding(index, "no-owner-lookup-seen", "-", "-", json!({"log": log, "state": state.get(), "trace": sched.trace_string()}));
            return;
        }
    };
    let mut next_id = 0u32;
    // events while the lookup is in flight (optional for the stream: it does not exist yet), then the reply, then
    // events right behind the reply
    let mut optional: Vec<u32> = Vec::new();
    let npre = rng.usize_below(4);
    for _ in 0..npre {
        let owner = bus.borrow().owners.get(NAME).cloned();
        let e = gen_ev(rng, owner.as_deref());
        if let Some(x) = emit(&bus, &e, &mut next_id, all_members, &mut log) {
            optional.push(x.id);
        }
    }
    {
        let mut b = bus.borrow_mut();
        log.push(format!("bus: GetNameOwner reply: {:?}", b.owners.get(NAME)));
        b.answer_get_name_owner(call.msg.serial, NAME);
    }
    let nbehind = rng.usize_below(4);
    for _ in 0..nbehind {
        let owner = bus.borrow().owners.get(NAME).cloned();
        let e = gen_ev(rng, owner.as_deref());
        if let Some(x) = emit(&bus, &e, &mut next_id, all_members, &mut log) {
            optional.push(x.id);
        }
    }
    if npre + nbehind > 0 {
        ctx.count("class:events-around-the-owner-lookup", 1);
    }
    let q = sched.run_to_quiescence();
    if state.get() != 1 {
        ctx.finding(index, "stream-not-created-at-quiescence", &format!("state-{}", state.get()), "-", json!({"log": log, "quiescent": q, "trace": sched.trace_string()}));
        return;
    }
    // whatever arrived so far was optional, but must at least have been emitted and match
    for id in received.borrow().iter() {
        if !optional.contains(id) {
            ctx.finding(index, "stream-yielded-unknown-signal", "-", "during-creation", json!({"log": log, "id": id}));
            return;
        }
    }
    log.push("-- stream created --".into());
    // rounds at quiescent points: exact expectation
    let rounds = if ctx.thorough() { 3 + rng.usize_below(8) } else { 2 + rng.usize_below(5) };
    let mut forged_seen = false;
    for round in 0..rounds {
        let before = received.borrow().len();
        let mut expect: Vec<u32> = Vec::new();
        let mut descs: Vec<String> = Vec::new();
        let n = 1 + rng.usize_below(6);
        for _ in 0..n {
            let owner = bus.borrow().owners.get(NAME).cloned();
            let e = gen_ev(rng, owner.as_deref());
            if matches!(e, Ev::Forged { .. }) {
                forged_seen = true;
                ctx.count("forged_ownership_claims", 1);
            }
            if matches!(e, Ev::Owner(_)) {
                ctx.count("ownership_changes", 1);
            }
            if let Some(x) = emit(&bus, &e, &mut next_id, all_members, &mut log) {
                ctx.count("signals_sent", 1);
                if x.expect {
                    expect.push(x.id);
                }
                descs.push(x.desc);
            }
        }
        sched.run_to_quiescence();
        let got: Vec<u32> = received.borrow()[before..].to_vec();
        ctx.count("rounds_checked", 1);
        ctx.count("signals_expected", expect.len() as u64);
        if got != expect {
            let missed: Vec<&u32> = expect.iter().filter(|i| !got.contains(i)).collect();
            let extra: Vec<&u32> = got.iter().filter(|i| !expect.contains(i)).collect();
            let reason = if !extra.is_empty() { "signal-from-non-owner-yielded" } else if !missed.is_empty() { "owner-signal-missed" } else { "order-differs" };
            let loc = if forged_seen { "after-forged-claim" } else if round == 0 { "first-round-after-creation" } else { "-" };
            ctx.finding(index, "yielded-signals-differ", reason, loc, json!({"log": log, "round": round, "expected": expect, "got": got, "state": state.get(), "trace": sched.trace_string()}));
            return;
        }
        if state.get() != 1 {
            ctx.finding(index, "stream-ended", "-", "-", json!({"log": log}));
            return;
        }
    }
    ctx.distinct(sched.fingerprint() ^ fnv(&log.join(";")));
    if !bus.borrow().parse_errors.is_empty() {
        ctx.finding(index, "bus-could-not-parse-zbus-output", "-", "-", json!({"errors": bus.borrow().parse_errors}));
    }
    ctx.count(if broad { "class:with-broad-subscriber" } else { "class:without-broad-subscriber" }, 1);
    ctx.sample(json!({"log": log, "yielded": received.borrow().clone(), "schedule": sched.trace_string().chars().take(100).collect::<String>()}));
}

pub fn run(ctx: &mut Ctx) {
    let n = ctx.budget(3000, 120_000);
    for i in 0..n {
        if !ctx.want(i) {
            continue;
        }
        let mut rng = ctx.rng(i);
        ctx.guarded(i, "history", || json!({}), |ctx| case(ctx, i, &mut rng));
    }
}
