//! C25 — ObjectManager signals track the managed object set.
//!
//! A raw client takes a manager's `GetManagedObjects` listing, applies the
//! `InterfacesAdded` / `InterfacesRemoved` signals it receives afterwards in
//! wire order, and must always end with the manager's current listing (paths
//! without interfaces ignored). Listings are also taken while registrations
//! race with the call (the reply's position in the wire order decides which
//! signals a client applies). Properties carried by the signals and by the
//! listings are compared with the values the interfaces hold at that time.

use crate::harness::peer::RawPeer;
use crate::harness::sched::Sched;
use crate::harness::util::*;
use crate::harness::wire::Wire;
use crate::props::c24::{run_task, IfA, IfB};
use serde_json::json;
use std::collections::{BTreeMap, BTreeSet};
use vcommon::Ctx;
use vref::msg::*;
use vref::prng::{fnv, Rng};
use vref::val::Val;
use zbus::Connection;

pub struct PIf {
    pub count: u32,
}

#[zbus::interface(name = "t.P")]
impl PIf {
    #[zbus(property)]
    fn count(&self) -> u32 {
        self.count
    }
    #[zbus(property)]
    async fn label(&self) -> String {
        format!("L{}", self.count)
    }
}

const IFACES: &[&str] = &["t.A", "t.B", "t.P"];
const OM: &str = "org.freedesktop.DBus.ObjectManager";

/// (object paths, manager paths) per configuration
struct Config {
    name: &'static str,
    paths: &'static [&'static str],
    managers: &'static [&'static str],
}

const CONFIGS: &[Config] = &[
    Config { name: "single", paths: &["/m", "/m/x", "/m/x/y", "/m/s", "/m/s/z", "/q"], managers: &["/m"] },
    Config { name: "siblings", paths: &["/m", "/m/x", "/m/x/y", "/n", "/n/w", "/q"], managers: &["/m", "/n"] },
    Config { name: "nested", paths: &["/m", "/m/x", "/m/x/y", "/m/s", "/m/s/z", "/q"], managers: &["/m", "/m/s"] },
    Config { name: "root", paths: &["/", "/m", "/m/x", "/q", "/q/r/t"], managers: &["/"] },
];

#[derive(Clone, Debug, PartialEq)]
enum Op {
    AddMgr(usize),
    RmMgr(usize),
    At(usize, usize, u32),
    Rm(usize, usize),
    Set(usize, usize, u32),
}

type Props = BTreeMap<String, String>;
type Listing = BTreeMap<String, BTreeMap<String, Props>>;

fn expected_props(iface: usize, v: u32) -> Props {
    let mut p = Props::new();
    match iface {
        1 => {
            p.insert("Value".into(), Val::V(Box::new(Val::U(v))).show());
        }
        2 => {
            p.insert("Count".into(), Val::V(Box::new(Val::U(v))).show());
            p.insert("Label".into(), Val::V(Box::new(Val::S(format!("L{v}")))).show());
        }
        _ => {}
    }
    p
}

fn below(path: &str, mgr: &str) -> bool {
    if mgr == "/" {
        path != "/"
    } else {
        path.len() > mgr.len() && path.starts_with(mgr) && path.as_bytes()[mgr.len()] == b'/'
    }
}

fn parse_ifaces(v: &Val) -> Option<BTreeMap<String, Props>> {
    let mut out = BTreeMap::new();
    match v {
        Val::Dict(_, _, es) => {
            for (k, pv) in es {
                let name = match k {
                    Val::S(s) => s.clone(),
                    _ => return None,
                };
                let mut props = Props::new();
                match pv {
                    Val::Dict(_, _, ps) => {
                        for (pk, pval) in ps {
                            match pk {
                                Val::S(s) => {
                                    props.insert(s.clone(), pval.show());
                                }
                                _ => return None,
                            }
                        }
                    }
                    _ => return None,
                }
                out.insert(name, props);
            }
        }
        _ => return None,
    }
    Some(out)
}

fn parse_listing(body: &[Val]) -> Option<Listing> {
    let mut out = Listing::new();
    match body.first()? {
        Val::Dict(_, _, es) => {
            for (k, v) in es {
                let path = match k {
                    Val::O(s) => s.clone(),
                    _ => return None,
                };
                out.insert(path, parse_ifaces(v)?);
            }
        }
        _ => return None,
    }
    Some(out)
}

fn normalise(l: &Listing) -> Listing {
    l.iter().filter(|(_, i)| !i.is_empty()).map(|(p, i)| (p.clone(), i.clone())).collect()
}

/// Apply one ObjectManager signal to a client mirror. Returns a description of a malformed signal.
fn apply_signal(mirror: &mut Listing, m: &Msg) -> Result<(), String> {
    let path = match m.body.first() {
        Some(Val::O(p)) => p.clone(),
        other => return Err(format!("first argument {other:?}")),
    };
    match m.member() {
        Some("InterfacesAdded") => {
            let ifs = m.body.get(1).and_then(parse_ifaces).ok_or("InterfacesAdded second argument")?;
            let e = mirror.entry(path).or_default();
            for (k, v) in ifs {
                e.insert(k, v);
            }
        }
        Some("InterfacesRemoved") => {
            let names: Vec<String> = match m.body.get(1) {
                Some(Val::A(_, xs)) => xs.iter().filter_map(|x| if let Val::S(s) = x { Some(s.clone()) } else { None }).collect(),
                other => return Err(format!("InterfacesRemoved second argument {other:?}")),
            };
            if let Some(e) = mirror.get_mut(&path) {
                for n in names {
                    e.remove(&n);
                }
                if e.is_empty() {
                    mirror.remove(&path);
                }
            }
        }
        _ => {}
    }
    Ok(())
}

fn diff(a: &Listing, b: &Listing) -> (String, serde_json::Value) {
    // a = mirror, b = listing
    let mut missing = Vec::new();
    let mut extra = Vec::new();
    let mut props = Vec::new();
    for (p, ifs) in b {
        for (i, pr) in ifs {
            match a.get(p).and_then(|x| x.get(i)) {
                None => missing.push(format!("{p} {i}")),
                Some(q) if q != pr => props.push(format!("{p} {i}: mirror {q:?} listing {pr:?}")),
                _ => {}
            }
        }
    }
    for (p, ifs) in a {
        for i in ifs.keys() {
            if b.get(p).and_then(|x| x.get(i)).is_none() {
                extra.push(format!("{p} {i}"));
            }
        }
    }
    let reason = if !missing.is_empty() { "listed-interface-missing-from-mirror" } else if !extra.is_empty() { "mirror-has-unlisted-interface" } else { "properties-differ" };
    (reason.to_string(), json!({"missing_from_mirror": missing, "only_in_mirror": extra, "properties_differ": props}))
}

struct Model {
    /// (path idx, iface idx) -> value
    pairs: BTreeMap<(usize, usize), u32>,
    mgrs: BTreeSet<usize>,
}

fn model_listing(cfg: &Config, model: &Model, mgr: usize, stop_at_nested: bool) -> Listing {
    let m = cfg.managers[mgr];
    let mut out = Listing::new();
    for ((p, i), v) in &model.pairs {
        let path = cfg.paths[*p];
        if !below(path, m) {
            continue;
        }
        if stop_at_nested {
            // objects below another live manager that itself sits below `m` are outside `m`'s scope
            let mut hidden = false;
            for (k, other) in cfg.managers.iter().enumerate() {
                if k != mgr && model.mgrs.contains(&k) && below(other, m) && below(path, other) {
                    hidden = true;
                }
            }
            if hidden {
                continue;
            }
        }
        out.entry(path.to_string()).or_default().insert(IFACES[*i].to_string(), expected_props(*i, *v));
    }
    out
}

async fn do_op(conn: Connection, cfg_paths: &'static [&'static str], mgrs: &'static [&'static str], op: Op) -> Result<bool, String> {
    let os = conn.object_server();
    let r = match op {
        Op::AddMgr(k) => os.at(mgrs[k], zbus::fdo::ObjectManager).await,
        Op::RmMgr(k) => os.remove::<zbus::fdo::ObjectManager, _>(mgrs[k]).await,
        Op::At(p, 0, v) => os.at(cfg_paths[p], IfA { tag: v }).await,
        Op::At(p, 1, v) => os.at(cfg_paths[p], IfB { tag: v }).await,
        Op::At(p, _, v) => os.at(cfg_paths[p], PIf { count: v }).await,
        Op::Rm(p, 0) => os.remove::<IfA, _>(cfg_paths[p]).await,
        Op::Rm(p, 1) => os.remove::<IfB, _>(cfg_paths[p]).await,
        Op::Rm(p, _) => os.remove::<PIf, _>(cfg_paths[p]).await,
        Op::Set(p, 1, v) => match os.interface::<_, IfB>(cfg_paths[p]).await {
            Ok(r) => {
                r.get_mut().await.tag = v;
                Ok(true)
            }
            Err(e) => Err(e),
        },
        Op::Set(p, 2, v) => match os.interface::<_, PIf>(cfg_paths[p]).await {
            Ok(r) => {
                r.get_mut().await.count = v;
                Ok(true)
            }
            Err(e) => Err(e),
        },
        Op::Set(..) => Ok(true),
    };
    r.map_err(|e| e.to_string())
}

fn show_op(cfg: &Config, op: &Op) -> String {
    match op {
        Op::AddMgr(k) => format!("add-manager({})", cfg.managers[*k]),
        Op::RmMgr(k) => format!("remove-manager({})", cfg.managers[*k]),
        Op::At(p, i, v) => format!("at({}, {}, {v})", cfg.paths[*p], IFACES[*i]),
        Op::Rm(p, i) => format!("remove({}, {})", cfg.paths[*p], IFACES[*i]),
        Op::Set(p, i, v) => format!("set({}, {}, {v})", cfg.paths[*p], IFACES[*i]),
    }
}

fn gen_round(rng: &mut Rng, cfg: &Config, model: &Model, next_v: &mut u32, racing: bool) -> Vec<Op> {
    let n = if racing { 2 + rng.usize_below(3) } else { 1 };
    let mut ops: Vec<Op> = Vec::new();
    let mut used_pairs: BTreeSet<(usize, usize)> = BTreeSet::new();
    let mut used_mgrs: BTreeSet<usize> = BTreeSet::new();
    let mut tries = 0;
    while ops.len() < n && tries < 50 {
        tries += 1;
        let r = rng.below(100);
        if r < 12 {
            let k = rng.usize_below(cfg.managers.len());
            if used_mgrs.contains(&k) {
                continue;
            }
            used_mgrs.insert(k);
            if model.mgrs.contains(&k) {
                // managers mostly stay
                if rng.chance(1, 3) {
                    ops.push(Op::RmMgr(k));
                }
            } else {
                ops.push(Op::AddMgr(k));
            }
            continue;
        }
        let p = rng.usize_below(cfg.paths.len());
        let i = rng.usize_below(IFACES.len());
        if used_pairs.contains(&(p, i)) {
            continue;
        }
        let present = model.pairs.contains_key(&(p, i));
        *next_v += 1;
        let v = *next_v;
        let op = if !racing && present && i != 0 && r < 30 {
            Op::Set(p, i, v)
        } else if present {
            if rng.chance(2, 3) {
                Op::Rm(p, i)
            } else {
                Op::At(p, i, v) // duplicate registration: must be refused, no signal
            }
        } else if rng.chance(5, 6) {
            Op::At(p, i, v)
        } else {
            Op::Rm(p, i) // absent: must fail, no signal
        };
        used_pairs.insert((p, i));
        ops.push(op);
    }
    ops
}

fn history(ctx: &mut Ctx, index: u64, rng: &mut Rng, script: Option<(usize, Vec<Vec<Op>>)>) {
    ctx.count("evaluations", 1);
    let cfg_i = match &script {
        Some((c, _)) => *c,
        None => rng.usize_below(CONFIGS.len()),
    };
    let cfg = &CONFIGS[cfg_i];
    let wire = Wire::new(rng.next_u64());
    let mut sched = Sched::new(Rng::new(rng.next_u64()));
    let bias = *rng.pick(&[(4u64, 3u64, 2u64), (6, 1, 6), (1, 6, 1), (2, 2, 6), (1, 1, 1)]);
    sched.w_ex = bias.0;
    sched.w_h = bias.1;
    sched.w_net = bias.2;
    let conn = match connect_authenticated(&mut sched, &wire) {
        Ok(c) => c,
        Err(e) => {
            ctx.finding(index, "harness-or-hang", "-", "connect", json!({"error": e}));
            return;
        }
    };
    let w2 = wire.clone();
    sched.add_net(Box::new(move || w2.release_one()));
    // start the object server's dispatch task before any traffic (lazy start is C30's subject)
    let c0 = conn.clone();
    run_task(&mut sched, async move {
        let _ = c0.object_server().at("/zz", IfA { tag: 0 }).await;
        let _ = c0.object_server().remove::<IfA, _>("/zz").await;
    });
    sched.run_to_quiescence();
    let mut peer = RawPeer::new(&wire);
    peer.pump();
    let mut model = Model { pairs: BTreeMap::new(), mgrs: BTreeSet::new() };
    let mut mirrors: BTreeMap<usize, Listing> = BTreeMap::new();
    let mut next_v = 10u32;
    let rounds = match &script {
        Some((_, r)) => r.len(),
        None => if ctx.thorough() { 10 + rng.usize_below(30) } else { 6 + rng.usize_below(14) },
    };
    let mut log: Vec<String> = Vec::new();
    let mut sampled = false;
    for round in 0..rounds {
        let mut racing = rng.chance(2, 5);
        let ops = match &script {
            Some((_, r)) => {
                racing = r[round].len() > 1;
                r[round].clone()
            }
            None => gen_round(rng, cfg, &model, &mut next_v, racing),
        };
        if ops.is_empty() {
            continue;
        }
        let before_pairs = model.pairs.clone();
        // model
        for op in &ops {
            match op {
                Op::AddMgr(k) => {
                    model.mgrs.insert(*k);
                }
                Op::RmMgr(k) => {
                    model.mgrs.remove(k);
                    mirrors.remove(k);
                }
                Op::At(p, i, v) => {
                    model.pairs.entry((*p, *i)).or_insert(*v);
                }
                Op::Rm(p, i) => {
                    model.pairs.remove(&(*p, *i));
                }
                Op::Set(p, i, v) => {
                    if let Some(x) = model.pairs.get_mut(&(*p, *i)) {
                        *x = *v;
                    }
                }
            }
        }
        let shown: Vec<String> = ops.iter().map(|o| show_op(cfg, o)).collect();
        log.push(format!("round {round}{}: {}", if racing { " (racing)" } else { "" }, shown.join(" | ")));
        // a late-joining client whose listing call races with this round's operations
        let late: Option<(usize, u32)> = if racing {
            let live: Vec<usize> = model.mgrs.iter().copied().filter(|k| !ops.contains(&Op::AddMgr(*k))).collect();
            if live.is_empty() {
                None
            } else {
                let k = *rng.pick(&live);
                let s = peer.serial();
                let chunks: Vec<usize> = if rng.bool() { vec![] } else { vec![1 + rng.usize_below(30)] };
                peer.send(&Msg::method_call(s, cfg.managers[k], Some(OM), "GetManagedObjects"), vec![], &chunks);
                ctx.count("class:late-joiner-listing-races-with-operations", 1);
                Some((k, s))
            }
        } else {
            None
        };
        // run the operations as concurrent harness tasks
        let mut tasks = Vec::new();
        for op in &ops {
            let c = conn.clone();
            let o = op.clone();
            let res: Slot<Result<bool, String>> = slot();
            let r2 = res.clone();
            let t = sched.spawn("op", async move {
                let r = do_op(c, cfg.paths, cfg.managers, o).await;
                *r2.borrow_mut() = Some(r);
            });
            tasks.push((t, res));
        }
        let q = sched.run_to_quiescence();
        for (k, (t, _)) in tasks.iter().enumerate() {
            if !sched.is_done(*t) {
                ctx.finding(index, "operation-did-not-complete", shown[k].split('(').next().unwrap_or(""), cfg.name, json!({"history": log, "quiescent": q, "trace": sched.trace_string()}));
                return;
            }
        }
        ctx.count("operations", ops.len() as u64);
        // the client reads what arrived, in wire order
        let arrived = peer.pump();
        let mut late_mirror: Option<Listing> = None;
        for m in &arrived {
            if let Some((_, s)) = late {
                if m.msg.reply_serial() == Some(s) {
                    if m.msg.mtype != METHOD_RETURN {
                        ctx.finding(index, "listing-call-failed", m.msg.error_name().unwrap_or("?"), cfg.name, json!({"history": log}));
                        return;
                    }
                    match parse_listing(&m.msg.body) {
                        Some(l) => late_mirror = Some(normalise(&l)),
                        None => {
                            ctx.finding(index, "listing-malformed", "-", cfg.name, json!({"history": log}));
                            return;
                        }
                    }
                    continue;
                }
            }
            if m.msg.mtype == SIGNAL && m.msg.interface() == Some(OM) {
                ctx.count("manager_signals_seen", 1);
                let from = m.msg.path().unwrap_or("");
                let k = match cfg.managers.iter().position(|x| *x == from) {
                    Some(k) => k,
                    None => {
                        ctx.finding(index, "signal-from-a-path-that-is-not-a-manager", "-", cfg.name, json!({"history": log, "path": from}));
                        return;
                    }
                };
                // properties carried by InterfacesAdded must be the interface's current ones
                if m.msg.member() == Some("InterfacesAdded") {
                    if let (Some(Val::O(p)), Some(ifs)) = (m.msg.body.first(), m.msg.body.get(1).and_then(parse_ifaces)) {
                        if let Some(pi) = cfg.paths.iter().position(|x| x == p) {
                            for (iname, props) in &ifs {
                                if let Some(ii) = IFACES.iter().position(|x| x == iname) {
                                    let v = model.pairs.get(&(pi, ii)).or_else(|| before_pairs.get(&(pi, ii)));
                                    if let Some(v) = v {
                                        ctx.count("added_signal_property_sets_checked", 1);
                                        let want = expected_props(ii, *v);
                                        if *props != want {
                                            ctx.finding(index, "interfaces-added-carries-other-properties", iname, cfg.name, json!({"history": log, "path": p, "carried": props, "current": want}));
                                            return;
                                        }
                                    }
                                }
                            }
                        }
                    }
                }
                if let Some(mir) = mirrors.get_mut(&k) {
                    if let Err(e) = apply_signal(mir, &m.msg) {
                        ctx.finding(index, "signal-malformed", &e, cfg.name, json!({"history": log}));
                        return;
                    }
                }
                if let (Some((lk, _)), Some(lm)) = (late, late_mirror.as_mut()) {
                    if lk == k {
                        let _ = apply_signal(lm, &m.msg);
                    }
                }
            }
        }
        if late.is_some() && late_mirror.is_none() {
            ctx.finding(index, "listing-call-unanswered", "-", cfg.name, json!({"history": log, "trace": sched.trace_string()}));
            return;
        }
        // at the quiescent point: fresh listings from every live manager
        let mut calls = Vec::new();
        for k in model.mgrs.iter().copied() {
            let s = peer.serial();
            peer.send(&Msg::method_call(s, cfg.managers[k], Some(OM), "GetManagedObjects"), vec![], &[]);
            calls.push((k, s));
        }
        sched.run_to_quiescence();
        let replies = peer.pump();
        for (k, s) in calls {
            let r = match replies.iter().find(|r| r.msg.reply_serial() == Some(s)) {
                Some(r) => r,
                None => {
                    ctx.finding(index, "listing-call-unanswered", "-", cfg.name, json!({"history": log, "trace": sched.trace_string()}));
                    return;
                }
            };
            if r.msg.mtype != METHOD_RETURN {
                ctx.finding(index, "listing-call-failed", r.msg.error_name().unwrap_or("?"), cfg.name, json!({"history": log}));
                return;
            }
            let raw = match parse_listing(&r.msg.body) {
                Some(l) => l,
                None => {
                    ctx.finding(index, "listing-malformed", "-", cfg.name, json!({"history": log, "body": r.msg.body.iter().map(|b| b.show()).collect::<Vec<_>>()}));
                    return;
                }
            };
            for p in raw.keys() {
                if !below(p, cfg.managers[k]) {
                    ctx.finding(index, "listing-has-path-outside-the-manager", "-", cfg.name, json!({"history": log, "path": p, "manager": cfg.managers[k]}));
                    return;
                }
            }
            let listing = normalise(&raw);
            ctx.count("listings_checked", 1);
            // the listing itself: the registered set with current properties
            let full = model_listing(cfg, &model, k, false);
            let scoped = model_listing(cfg, &model, k, true);
            if listing != full && listing != scoped {
                let (reason, d) = diff(&listing, &full);
                let reason = reason.replace("mirror", "listing").replace("listed-interface-missing-from-listing", "registered-interface-not-listed");
                ctx.finding(index, "listing-differs-from-registered-set", &reason, cfg.name, json!({"history": log, "manager": cfg.managers[k], "diff(listing as 'mirror', registered as 'listing')": d}));
                return;
            }
            // the property: listing at the start + deltas == listing now
            match mirrors.get(&k) {
                Some(mir) => {
                    ctx.count("mirror_comparisons", 1);
                    let mir = normalise(mir);
                    // a client mirror holds the properties it was told at the time; property changes travel by
                    // PropertiesChanged, so only the (path, interface) sets are compared here
                    let strip = |l: &Listing| -> Listing { l.iter().map(|(p, i)| (p.clone(), i.keys().map(|k| (k.clone(), Props::new())).collect())).collect() };
                    if strip(&mir) != strip(&listing) {
                        let (reason, d) = diff(&strip(&mir), &strip(&listing));
                        let inner = cfg.name == "nested" && model.mgrs.len() == 2;
                        ctx.finding(index, "mirror-differs-from-listing", &reason, &format!("{}{}", cfg.name, if inner { ":both-managers-live" } else { "" }), json!({"history": log, "manager": cfg.managers[k], "diff": d}));
                        return;
                    }
                }
                None => {
                    mirrors.insert(k, listing.clone());
                }
            }
            if let (Some((lk, _)), Some(lm)) = (late, late_mirror.as_ref()) {
                if lk == k {
                    ctx.count("late_joiner_comparisons", 1);
                    if normalise(lm) != listing {
                        let (reason, d) = diff(&normalise(lm), &listing);
                        ctx.finding(index, "late-joiner-mirror-differs-from-listing", &reason, cfg.name, json!({"history": log, "manager": cfg.managers[k], "diff": d, "trace": sched.trace_string()}));
                        return;
                    }
                }
            }
        }
        if !sampled && round >= 4 {
            sampled = true;
            ctx.sample(json!({"config": cfg.name, "history": log, "live_managers": model.mgrs.iter().map(|k| cfg.managers[*k]).collect::<Vec<_>>(),
                "mirror_sizes": mirrors.iter().map(|(k, m)| (cfg.managers[*k], m.len())).collect::<Vec<_>>(), "schedule": sched.trace_string().chars().take(120).collect::<String>()}));
        }
    }
    ctx.count(&format!("class:config-{}", cfg.name), 1);
    ctx.distinct(fnv(&log.join(";")) ^ sched.fingerprint());
    if !peer.parse_errors.is_empty() {
        ctx.finding(index, "peer-could-not-parse-zbus-output", "-", "-", json!({"errors": peer.parse_errors}));
    }
}

/// Histories that once failed (fixed defects) plus a few hand-made ones; run by every shard.
fn directed() -> Vec<(usize, Vec<Vec<Op>>)> {
    vec![
        // manager at /m/s loses the last other interface at its own path: it must stay (nested config: paths[3] = /m/s)
        (2, vec![vec![Op::AddMgr(1)], vec![Op::At(3, 1, 5)], vec![Op::At(4, 2, 6)], vec![Op::Rm(3, 1)], vec![Op::At(4, 1, 7)], vec![Op::Rm(4, 2)]]),
        // sibling manager at /n, same shape
        (1, vec![vec![Op::AddMgr(1)], vec![Op::At(3, 0, 5)], vec![Op::Rm(3, 0)], vec![Op::At(4, 1, 7)]]),
        // both nested managers live: changes below the inner one must reach the outer one's clients as well
        (2, vec![vec![Op::AddMgr(0)], vec![Op::AddMgr(1)], vec![Op::At(4, 2, 5)], vec![Op::At(1, 1, 6)], vec![Op::Rm(4, 2)], vec![Op::At(4, 0, 7), Op::At(2, 1, 8)]]),
        // populate, then add the manager (burst), then remove everything
        (0, vec![vec![Op::At(1, 1, 5)], vec![Op::At(2, 2, 6)], vec![Op::AddMgr(0)], vec![Op::Set(2, 2, 9)], vec![Op::Rm(1, 1)], vec![Op::Rm(2, 2)], vec![Op::RmMgr(0)], vec![Op::AddMgr(0)], vec![Op::At(1, 2, 10)]]),
        // manager at the root
        (3, vec![vec![Op::AddMgr(0)], vec![Op::At(0, 1, 5)], vec![Op::At(4, 2, 6)], vec![Op::Rm(0, 1)], vec![Op::Rm(4, 2)]]),
    ]
}

pub fn run(ctx: &mut Ctx) {
    for (k, d) in directed().into_iter().enumerate() {
        let i = 2_000_000_000 + k as u64;
        if !ctx.want(i) {
            continue;
        }
        let mut rng = ctx.rng(i);
        ctx.guarded(i, "directed", || json!({"directed": k}), |ctx| history(ctx, i, &mut rng, Some(d)));
        ctx.count("class:directed-history", 1);
    }
    let n = ctx.budget(1500, 60_000);
    for i in 0..n {
        if !ctx.want(i) {
            continue;
        }
        let mut rng = ctx.rng(i);
        ctx.guarded(i, "history", || json!({}), |ctx| history(ctx, i, &mut rng, None));
    }
}
