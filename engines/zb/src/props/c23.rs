//! C23 — D-Bus addresses round-trip through their string form, and parsing
//! percent-decodes every value.

use serde_json::json;
use std::ffi::OsString;
use std::os::unix::ffi::{OsStrExt, OsStringExt};
use std::path::PathBuf;
use std::str::FromStr;
use vcommon::Ctx;
use vref::prng::{fnv, Rng};
use zbus::address::transport::{Tcp, TcpTransportFamily, Transport, Unix, UnixSocket, Unixexec};
use zbus::Address;

fn rand_bytes(rng: &mut Rng, max: usize, ascii_bias: bool) -> Vec<u8> {
    let n = 1 + rng.usize_below(max);
    (0..n)
        .map(|_| {
            if ascii_bias && rng.chance(3, 4) {
                *rng.pick(b"abcXYZ019-_/.\\* %,=:;~")
            } else {
                1 + rng.below(255) as u8 // any byte but NUL (OS strings cannot hold it in paths)
            }
        })
        .collect()
}

fn optionally_escaped(b: u8) -> bool {
    matches!(b, b'-' | b'0'..=b'9' | b'A'..=b'Z' | b'a'..=b'z' | b'_' | b'/' | b'.' | b'\\' | b'*')
}

/// Reference percent-encoding with random choices where the spec leaves freedom.
fn ref_encode(bytes: &[u8], rng: &mut Rng) -> String {
    let mut s = String::new();
    for b in bytes {
        if optionally_escaped(*b) && !rng.chance(1, 6) {
            s.push(*b as char);
        } else if rng.bool() {
            s.push_str(&format!("%{b:02x}"));
        } else {
            s.push_str(&format!("%{b:02X}"));
        }
    }
    s
}

fn gen_address(rng: &mut Rng) -> (Address, &'static str) {
    let (t, kind) = match rng.below(8) {
        0 => (Transport::Unix(Unix::new(UnixSocket::File(PathBuf::from(OsString::from_vec(rand_bytes(rng, 20, true)))))), "unix-path"),
        1 => (Transport::Unix(Unix::new(UnixSocket::Abstract(OsString::from_vec(rand_bytes(rng, 20, true))))), "unix-abstract"),
        2 => (Transport::Unix(Unix::new(UnixSocket::Dir(PathBuf::from(OsString::from_vec(rand_bytes(rng, 20, true)))))), "unix-dir"),
        3 => (Transport::Unix(Unix::new(UnixSocket::TmpDir(PathBuf::from(OsString::from_vec(rand_bytes(rng, 20, true)))))), "unix-tmpdir"),
        4 => {
            let path = PathBuf::from(OsString::from_vec(rand_bytes(rng, 16, true)));
            let arg0 = if rng.bool() { Some(OsString::from_vec(rand_bytes(rng, 8, true))) } else { None };
            // argument counts across the one- / two-digit key boundary (argv9, argv10, ...) as well as the usual few
            let nargs = if rng.chance(2, 5) { *rng.pick(&[8usize, 9, 10, 11, 12, 20, 25, 101]) } else { rng.usize_below(4) };
            let args: Vec<OsString> = (0..nargs).map(|_| OsString::from_vec(rand_bytes(rng, 8, true))).collect();
            (Transport::Unixexec(Unixexec::new(path, arg0, args)), "unixexec")
        }
        5 => {
            let host = String::from_utf8(rand_bytes(rng, 12, true).into_iter().filter(|b| b.is_ascii()).collect()).unwrap();
            let host = if host.is_empty() { "h".to_string() } else { host };
            let mut t = Tcp::new(&host, rng.below(65536) as u16);
            if rng.bool() {
                t = t.set_family(Some(if rng.bool() { TcpTransportFamily::Ipv4 } else { TcpTransportFamily::Ipv6 }));
            }
            (Transport::Tcp(t), "tcp")
        }
        6 => {
            let t = Tcp::new(*rng.pick(&["localhost", "127.0.0.1", "::1", "ex-ample.org"]), rng.below(65536) as u16).set_nonce_file(Some(rand_bytes(rng, 16, true)));
            (Transport::Tcp(t), "nonce-tcp")
        }
        _ => (Transport::Tcp(Tcp::new("localhost", 1 + rng.below(65535) as u16)), "tcp-plain"),
    };
    let mut a = Address::new(t);
    if rng.chance(1, 3) {
        let g: String = (0..32).map(|_| *rng.pick(b"0123456789abcdef") as char).collect();
        a = a.set_guid(zbus::Guid::try_from(g.as_str()).unwrap().to_owned()).unwrap();
    }
    (a, kind)
}

pub fn run(ctx: &mut Ctx) {
    let n = ctx.budget(200_000, 10_000_000);
    for i in 0..n {
        if !ctx.want(i) {
            continue;
        }
        let mut rng = ctx.rng(i);
        // (1) value -> string -> value
        let (a, kind) = gen_address(&mut rng);
        let note = format!("roundtrip {kind}");
        ctx.guarded(i, &note, || json!({"kind": kind}), |ctx| {
            ctx.count("evaluations", 1);
            ctx.count(&format!("class:{kind}"), 1);
            if let Transport::Unixexec(u) = a.transport() {
                if u.args().len() >= 10 {
                    ctx.count("class:unixexec-10-or-more-arguments", 1);
                }
            }
            let s = a.to_string();
            ctx.distinct(fnv(&s));
            match Address::from_str(&s) {
                Ok(b) => {
                    if b != a {
                        ctx.finding(i, "roundtrip-differs", kind, "-", json!({"string": s, "original": format!("{a:?}"), "parsed": format!("{b:?}")}));
                    } else if b.to_string() != s {
                        ctx.finding(i, "print-not-stable", kind, "-", json!({"string": s, "second": b.to_string()}));
                    }
                }
                Err(e) => ctx.finding(i, "roundtrip-parse-error", kind, "-", json!({"string": s, "original": format!("{a:?}"), "error": e.to_string()})),
            }
        });
        // (2) reference-grammar strings: accessor values must be the percent-decoded ones
        let bytes = rand_bytes(&mut rng, 16, true);
        let enc = ref_encode(&bytes, &mut rng);
        let which = rng.below(6);
        let (text, key): (String, &'static str) = match which {
            0 => (format!("unix:path={enc}"), "unix-path"),
            1 => (format!("unix:abstract={enc}"), "unix-abstract"),
            2 => (format!("unix:dir={enc}"), "unix-dir"),
            3 => (format!("unix:tmpdir={enc}"), "unix-tmpdir"),
            4 => (format!("unixexec:path={enc},argv0={enc},argv1={enc}"), "unixexec"),
            _ => (format!("nonce-tcp:host=localhost,port=1,noncefile={enc}"), "nonce-tcp"),
        };
        ctx.guarded(i, "decode", || json!({"text": text}), |ctx| {
            ctx.count("evaluations", 1);
            ctx.count(&format!("class:decode-{key}"), 1);
            let needs_decoding = enc.contains('%');
            ctx.count(if needs_decoding { "class:value-with-escapes" } else { "class:value-without-escapes" }, 1);
            match Address::from_str(&text) {
                Err(e) => ctx.finding(i, "rejects-valid-address", key, if needs_decoding { "escaped" } else { "plain" }, json!({"text": text, "error": e.to_string()})),
                Ok(a) => {
                    let got: Vec<Vec<u8>> = match a.transport() {
                        Transport::Unix(u) => match u.path() {
                            UnixSocket::File(p) | UnixSocket::Dir(p) | UnixSocket::TmpDir(p) => vec![p.as_os_str().as_bytes().to_vec()],
                            UnixSocket::Abstract(n) => vec![n.as_bytes().to_vec()],
                            _ => vec![],
                        },
                        Transport::Unixexec(x) => {
                            let mut v = vec![x.path().as_os_str().as_bytes().to_vec()];
                            if let Some(a0) = x.arg0() {
                                v.push(a0.as_bytes().to_vec());
                            }
                            for a in x.args() {
                                v.push(a.as_bytes().to_vec());
                            }
                            v
                        }
                        Transport::Tcp(t) => vec![t.nonce_file().map(|x| x.to_vec()).unwrap_or_default()],
                        _ => vec![],
                    };
                    if got.iter().any(|g| *g != bytes) {
                        ctx.finding(i, "value-not-percent-decoded", key, "-", json!({"text": text, "expected_bytes": vref::hex(&bytes), "got": got.iter().map(|g| vref::hex(g)).collect::<Vec<_>>()}));
                    }
                }
            }
        });
        // (3) malformed escapes are rejected
        if i % 4 == 0 {
            let bad = *rng.pick(&["%", "%g1", "%1", "a%", "%%41", "a b", "a=b%"]);
            let text = format!("unix:path=/tmp/{bad}");
            ctx.guarded(i, "malformed", || json!({"text": text}), |ctx| {
                ctx.count("evaluations", 1);
                ctx.count("class:malformed-escape", 1);
                if Address::from_str(&text).is_ok() {
                    ctx.finding(i, "accepts-malformed-escape", bad, "-", json!({"text": text}));
                }
            });
        }
        if i < 3 {
            ctx.sample(json!({"address": a.to_string(), "reference_string": text}));
        }
    }
}
