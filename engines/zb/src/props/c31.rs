//! C31 — a proxy's property cache reflects the received history.
//!
//! A scripted service (behind the scripted bus) owns the truth about four
//! properties. It emits PropertiesChanged signals (changed values,
//! invalidations, other interfaces, uncached names) before the proxy's GetAll
//! call reaches it, between the call and its reply, and after the reply, in one
//! burst with arbitrary read chunking under seeded schedules; strangers send
//! look-alike signals. At quiescence the cache must equal what the messages
//! imply in receive order; get_property must use the cache exactly when it
//! holds a value; a property stream's consumer must end with the latest value.

use crate::harness::bus::*;
use crate::harness::sched::Sched;
use crate::harness::util::*;
use crate::harness::wire::Wire;
use crate::props::c24::run_task;
use futures_lite::StreamExt;
use serde_json::json;
use std::cell::RefCell;
use std::collections::BTreeMap;
use std::rc::Rc;
use vcommon::Ctx;
use vref::msg::*;
use vref::prng::{fnv, Rng};
use vref::sig::Sig;
use vref::val::Val;
use zbus::proxy::CacheProperties;

const PROPS: &[&str] = &["P", "Q", "U", "X"];
const UNCACHED: &str = "U";
const IFACE: &str = "t.If";
const PROPS_IFACE: &str = "org.freedesktop.DBus.Properties";

#[derive(Clone, Debug)]
struct Ev {
    iface: &'static str,
    changed: Vec<(&'static str, u32)>,
    inval: Vec<&'static str>,
    /// sent by somebody who is not the service (straight to the connection)
    stranger: bool,
}

fn show_ev(e: &Ev) -> String {
    format!("{}{} changed={:?} invalidated={:?}", if e.stranger { "STRANGER " } else { "" }, e.iface, e.changed, e.inval)
}

struct Service {
    truth: BTreeMap<&'static str, u32>,
    next: u32,
    get_calls: Vec<String>,
}

fn ev_msg(serial: u32, sender: &str, dest: Option<&str>, e: &Ev) -> Msg {
    let changed: Vec<(Val, Val)> = e.changed.iter().map(|(k, v)| (Val::S(k.to_string()), Val::V(Box::new(Val::U(*v))))).collect();
    let inval: Vec<Val> = e.inval.iter().map(|k| Val::S(k.to_string())).collect();
    let mut m = Msg::signal(serial, "/p", PROPS_IFACE, "PropertiesChanged").with_sender(sender).with_body(vec![Val::S(e.iface.into()), Val::Dict(Sig::S, Sig::V, changed), Val::A(Sig::S, inval)]);
    if let Some(d) = dest {
        m = m.with_destination(d);
    }
    m
}

fn gen_ev(rng: &mut Rng, svc: &mut Service) -> Ev {
    let stranger = rng.chance(1, 8);
    let iface = if rng.chance(1, 5) { "t.Other" } else { IFACE };
    let mut changed = Vec::new();
    let mut inval = Vec::new();
    let n = 1 + rng.usize_below(2);
    for _ in 0..n {
        let k = *rng.pick(PROPS);
        if changed.iter().any(|(c, _)| *c == k) || inval.contains(&k) {
            continue;
        }
        svc.next += 1;
        if rng.chance(1, 4) {
            inval.push(k);
        } else {
            changed.push((k, svc.next));
        }
    }
    Ev { iface, changed, inval, stranger }
}

/// The service emits `e`: its own state follows (a stranger's or another interface's signal changes nothing).
fn emit(bus: &SharedBus, svc: &Rc<RefCell<Service>>, owner: &str, e: &Ev) -> bool {
    if !e.stranger && e.iface == IFACE {
        let mut s = svc.borrow_mut();
        for (k, v) in &e.changed {
            s.truth.insert(k, *v);
        }
        for k in &e.inval {
            s.next += 1;
            let fresh = 500_000 + s.next;
            s.truth.insert(k, fresh);
        }
    }
    let mut b = bus.borrow_mut();
    let serial = b.serial();
    let unique = b.unique.clone();
    let m = if e.stranger { ev_msg(serial, ":1.99", Some(&unique), e) } else { ev_msg(serial, owner, None, e) };
    b.route_signal(&m)
}

/// What the messages imply for the cache: applied to `cache` in receive order (events after the GetAll reply only).
fn model_apply(cache: &mut BTreeMap<&'static str, Option<u32>>, e: &Ev) {
    if e.stranger || e.iface != IFACE {
        return;
    }
    for k in &e.inval {
        if *k != UNCACHED {
            if let Some(x) = cache.get_mut(k) {
                *x = None;
            }
        }
    }
    for (k, v) in &e.changed {
        if *k != UNCACHED {
            cache.insert(k, Some(*v));
        }
    }
}

fn case(ctx: &mut Ctx, index: u64, rng: &mut Rng) {
    ctx.count("evaluations", 1);
    let wire = Wire::new(rng.next_u64());
    let mut sched = Sched::new(Rng::new(rng.next_u64()));
    let bias = *rng.pick(&[(4u64, 3u64, 2u64), (6, 1, 6), (1, 6, 1), (2, 2, 6), (8, 2, 1), (1, 1, 8)]);
    sched.w_ex = bias.0;
    sched.w_h = bias.1;
    sched.w_net = bias.2;
    let bus: SharedBus = Rc::new(RefCell::new(FakeBus::new(&wire)));
    bus.borrow_mut().chunking = match rng.below(4) {
        0 => vec![],
        1 => vec![1 + rng.usize_below(12)],
        2 => vec![100 + rng.usize_below(400)],
        _ => vec![1 + rng.usize_below(200), 1 + rng.usize_below(50)],
    };
    bus.borrow_mut().owners.insert("t.svc.A".into(), ":1.7".into());
    let conn = match connect_bus(&mut sched, &wire, &bus) {
        Ok(c) => c,
        Err(e) => {
            ctx.finding(index, "harness-or-hang", "-", "connect", json!({"error": e}));
            return;
        }
    };
    let wellknown = rng.bool();
    let (dest, owner) = if wellknown { ("t.svc.A", ":1.7") } else { (":1.5", ":1.5") };
    let lazily = rng.chance(1, 3);
    let svc = Rc::new(RefCell::new(Service { truth: BTreeMap::new(), next: 100, get_calls: Vec::new() }));
    let x_exists = rng.bool();
    for (i, p) in PROPS.iter().enumerate() {
        if *p != "X" || x_exists {
            svc.borrow_mut().truth.insert(p, 10 + i as u32);
        }
    }
    let mut log: Vec<String> = vec![format!("proxy to {dest} ({})", if lazily { "lazy cache" } else { "cache primed by build()" })];
    // build the proxy
    let px: Slot<zbus::Proxy<'static>> = slot();
    let px2 = px.clone();
    let c2 = conn.clone();
    let build = sched.spawn("proxy-build", async move {
        let b = zbus::proxy::Builder::<zbus::Proxy<'static>>::new(&c2).destination(dest).unwrap().path("/p").unwrap().interface(IFACE).unwrap();
        let b = b.uncached_properties(&[UNCACHED]).cache_properties(if lazily { CacheProperties::Lazily } else { CacheProperties::Yes });
        if let Ok(p) = b.build().await {
            *px2.borrow_mut() = Some(p.clone());
            if lazily {
                // first use starts the caching task (get_property waits for the cache to be ready)
                let _ = p.get_property::<u32>("Q").await;
            }
        }
    });
    // step until the PropertiesChanged rule is registered, then let the service emit early signals (before the GetAll call
    // can have reached it), then run until the GetAll call sits in the bus's inbox
    let mut pre: Vec<Ev> = Vec::new();
    let npre = rng.usize_below(3);
    let mut pre_done = false;
    loop {
        if !pre_done && bus.borrow().rules.iter().any(|r| r.contains("PropertiesChanged")) {
            pre_done = true;
            for _ in 0..npre {
                let e = gen_ev(rng, &mut svc.borrow_mut());
                emit(&bus, &svc, owner, &e);
                log.push(format!("before the GetAll call: {}", show_ev(&e)));
                pre.push(e);
            }
        }
        if !sched.step() {
            break;
        }
        if sched.steps > 100_000 {
            break;
        }
    }
    let getall = bus.borrow().inbox.iter().position(|c| c.msg.member() == Some("GetAll"));
    let call = match getall {
        Some(i) => bus.borrow_mut().inbox.remove(i),
        None => {
            ctx.finding(index, "no-GetAll-call-seen", if lazily { "lazy" } else { "upfront" }, "-", json!({"log": log, "trace": sched.trace_string()}));
            return;
        }
    };
    // mid events, the reply (the service's state at that moment), post events: one burst
    let nmid = rng.usize_below(4);
    for _ in 0..nmid {
        let e = gen_ev(rng, &mut svc.borrow_mut());
        emit(&bus, &svc, owner, &e);
        log.push(format!("before the GetAll reply: {}", show_ev(&e)));
    }
    let snapshot: Vec<(Val, Val)> = svc.borrow().truth.iter().map(|(k, v)| (Val::S(k.to_string()), Val::V(Box::new(Val::U(*v))))).collect();
    let mut cache: BTreeMap<&'static str, Option<u32>> = svc.borrow().truth.iter().filter(|(k, _)| **k != UNCACHED).map(|(k, v)| (*k, Some(*v))).collect();
    log.push(format!("GetAll reply: {:?}", svc.borrow().truth));
    bus.borrow_mut().reply_from(owner, call.msg.serial, vec![Val::Dict(Sig::S, Sig::V, snapshot)]);
    let npost = rng.usize_below(7);
    for _ in 0..npost {
        let e = gen_ev(rng, &mut svc.borrow_mut());
        emit(&bus, &svc, owner, &e);
        model_apply(&mut cache, &e);
        log.push(format!("after the GetAll reply: {}", show_ev(&e)));
    }
    ctx.count("events_around_the_reply", (npre + nmid + npost) as u64);
    if npost > 0 && bus.borrow().chunking.first().map_or(true, |c| *c > 60) {
        ctx.count("class:update-in-the-same-read-as-the-reply", 1);
    }
    // the service answers Get calls with its current state
    let (b3, s3) = (bus.clone(), svc.clone());
    sched.add_net(Box::new(move || {
        let mut b = b3.borrow_mut();
        if b.inbox.is_empty() {
            return false;
        }
        let calls: Vec<_> = b.inbox.drain(..).collect();
        for c in calls {
            if c.msg.member() == Some("Get") {
                let name = match c.msg.body.get(1) {
                    Some(Val::S(s)) => s.clone(),
                    _ => String::new(),
                };
                s3.borrow_mut().get_calls.push(name.clone());
                let v = s3.borrow().truth.iter().find(|(k, _)| **k == name).map(|(_, v)| *v);
                match v {
                    Some(v) => b.reply_from(owner, c.msg.serial, vec![Val::V(Box::new(Val::U(v)))]),
                    None => {
                        let s = b.serial();
                        let u = b.unique.clone();
                        b.force_send(&Msg::error(s, c.msg.serial, "org.freedesktop.DBus.Error.UnknownProperty").with_sender(owner).with_destination(&u).with_body(vec![Val::S("no".into())]));
                    }
                }
            } else {
                let s = b.serial();
                let u = b.unique.clone();
                b.force_send(&Msg::error(s, c.msg.serial, "org.freedesktop.DBus.Error.UnknownMethod").with_sender(owner).with_destination(&u).with_body(vec![Val::S("no".into())]));
            }
        }
        true
    }));
    let q = sched.run_to_quiescence();
    if !sched.is_done(build) || px.borrow().is_none() {
        // (the lazy variant's build task ends after its first get_property, which needs the GetAll reply)
        ctx.finding(index, "proxy-not-ready-at-quiescence", if lazily { "lazy" } else { "upfront" }, "-", json!({"log": log, "quiescent": q, "trace": sched.trace_string()}));
        return;
    }
    let proxy = px.borrow().clone().unwrap();
    ctx.distinct(sched.fingerprint() ^ fnv(&log.join(";")));
    // ---- observation 1: the cache
    let observe = |proxy: &zbus::Proxy<'static>| -> BTreeMap<&'static str, Option<u32>> { PROPS.iter().map(|p| (*p, proxy.cached_property::<u32>(p).ok().flatten())).collect() };
    let check_cache = |ctx: &mut Ctx, phase: &str, got: &BTreeMap<&'static str, Option<u32>>, cache: &BTreeMap<&'static str, Option<u32>>, log: &Vec<String>, trace: String| -> bool {
        for p in PROPS {
            let want = cache.get(p).copied().flatten();
            let have = got.get(p).copied().flatten();
            ctx.count("cached_values_checked", 1);
            if want != have {
                let reason = if *p == UNCACHED {
                    "uncached-property-in-cache"
                } else if have.is_none() {
                    "value-missing"
                } else if want.is_none() {
                    "invalidated-or-absent-value-present"
                } else {
                    "stale-or-wrong-value"
                };
                ctx.finding(index, "cache-differs-from-received-history", reason, phase, json!({"log": log, "property": p, "implied": want, "cached": have, "trace": trace}));
                return false;
            }
        }
        true
    };
    let got = observe(&proxy);
    if !check_cache(ctx, "after-initial-burst", &got, &cache, &log, sched.trace_string()) {
        return;
    }
    // ---- observation 2: get_property uses the cache exactly when it holds a value
    for p in PROPS {
        let before = svc.borrow().get_calls.len();
        let p2 = proxy.clone();
        let name = *p;
        let r = run_task(&mut sched, async move { p2.get_property::<u32>(name).await });
        sched.run_to_quiescence();
        let asked = svc.borrow().get_calls.len() > before;
        let cached = cache.get(p).copied().flatten();
        let truth = svc.borrow().truth.get(p).copied();
        ctx.count("get_property_checked", 1);
        let want: Option<u32> = cached.or(truth);
        let have: Option<u32> = match &r {
            Some(Ok(v)) => Some(*v),
            _ => None,
        };
        if r.is_none() {
            ctx.finding(index, "get_property-pending-at-quiescence", "-", "-", json!({"log": log, "property": p}));
            return;
        }
        if have != want {
            ctx.finding(index, "get_property-wrong-value", if cached.is_some() { "cached" } else { "fetched" }, "-", json!({"log": log, "property": p, "expected": want, "got": format!("{r:?}")}));
            return;
        }
        if asked != cached.is_none() {
            ctx.finding(index, "get_property-cache-use-wrong", if asked { "asked-service-although-cached" } else { "did-not-ask-although-not-cached" }, "-", json!({"log": log, "property": p}));
            return;
        }
    }
    // ---- later rounds of updates at quiescent points
    let rounds = rng.usize_below(3);
    for r in 0..rounds {
        for _ in 0..1 + rng.usize_below(4) {
            let e = gen_ev(rng, &mut svc.borrow_mut());
            emit(&bus, &svc, owner, &e);
            model_apply(&mut cache, &e);
            log.push(format!("round {r}: {}", show_ev(&e)));
        }
        sched.run_to_quiescence();
        let got = observe(&proxy);
        if !check_cache(ctx, "later-round", &got, &cache, &log, String::new()) {
            return;
        }
    }
    // ---- observation 3: a property stream's consumer ends with the latest value
    let watched = *rng.pick(&["P", "Q", "X"]);
    let seen: Rc<RefCell<Vec<Result<u32, String>>>> = Rc::new(RefCell::new(Vec::new()));
    let seen2 = seen.clone();
    let p3 = proxy.clone();
    sched.spawn("property-stream", async move {
        let mut st = p3.receive_property_changed::<u32>(watched).await;
        while let Some(ch) = st.next().await {
            let v = ch.get().await.map_err(|e| e.to_string());
            seen2.borrow_mut().push(v);
        }
    });
    sched.run_to_quiescence();
    let had_value = cache.get(watched).copied().flatten();
    let first: Option<Result<u32, String>> = seen.borrow().first().cloned();
    ctx.count("property_streams_checked", 1);
    match (had_value, &first) {
        (Some(v), Some(Ok(x))) if *x == v => {}
        (None, None) => {}
        // an invalidated property: the stream has nothing to report yet, or reports what the service now says
        (None, Some(Ok(x))) if Some(*x) == svc.borrow().truth.get(watched).copied() => {}
        _ => {
            ctx.finding(index, "property-stream-initial-item-wrong", "-", "-", json!({"log": log, "property": watched, "cached": had_value, "stream_items": format!("{:?}", seen.borrow())}));
            return;
        }
    }
    let mut touched = false;
    let n3 = 1 + rng.usize_below(5);
    for _ in 0..n3 {
        let e = gen_ev(rng, &mut svc.borrow_mut());
        emit(&bus, &svc, owner, &e);
        model_apply(&mut cache, &e);
        // the stream created the property's cache entry, so an invalidation always wakes the consumer
        if !e.stranger && e.iface == IFACE && (e.changed.iter().any(|(k, _)| *k == watched) || e.inval.contains(&watched)) {
            touched = true;
        }
        log.push(format!("with a stream on {watched}: {}", show_ev(&e)));
    }
    sched.run_to_quiescence();
    if touched {
        ctx.count("class:stream-saw-updates", 1);
        let truth = svc.borrow().truth.get(watched).copied();
        let last = seen.borrow().last().cloned();
        if last != truth.map(Ok) {
            ctx.finding(index, "property-stream-does-not-end-with-latest-value", "-", "-", json!({"log": log, "property": watched, "latest": truth, "stream_items": format!("{:?}", seen.borrow())}));
            return;
        }
        // the consumer's get() fetched and stored an invalidated value
        cache.insert(watched, truth);
    }
    let got = observe(&proxy);
    if !check_cache(ctx, "with-property-stream", &got, &cache, &log, String::new()) {
        return;
    }
    if !bus.borrow().parse_errors.is_empty() {
        ctx.finding(index, "bus-could-not-parse-zbus-output", "-", "-", json!({"errors": bus.borrow().parse_errors}));
    }
    ctx.count(if wellknown { "class:well-known-destination" } else { "class:unique-destination" }, 1);
    ctx.count(if lazily { "class:lazy-cache" } else { "class:upfront-cache" }, 1);
    ctx.sample(json!({"log": log, "final_cache": format!("{:?}", observe(&proxy)), "get_calls": svc.borrow().get_calls.clone(), "schedule": sched.trace_string().chars().take(100).collect::<String>()}));
}

pub fn run(ctx: &mut Ctx) {
    let n = ctx.budget(3000, 120_000);
    for i in 0..n {
        if !ctx.want(i) {
            continue;
        }
        let mut rng = ctx.rng(i);
        ctx.guarded(i, "history", || json!({}), |ctx| case(ctx, i, &mut rng));
    }
}
