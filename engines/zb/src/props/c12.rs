//! C12 — parsing hostile message bytes never crashes: `Message::from_bytes`
//! either fails or yields a message whose header, fields, body and display can
//! all be read without panicking.

use crate::msggen::*;
use crate::props::c11::zendian;
use serde_json::json;
use vcommon::alloc;
use vcommon::Ctx;
use vref::dbus::{mutate, Endian};
use vref::msg::*;
use vref::prng::{fnv, Rng};
use vref::val::Val;
use zbus::message::Message;
use zbus::zvariant::serialized::{Context, Data};
use zbus::zvariant::Structure;
use zbus::MatchRule;

/// Exercise every read path of a message built from `bytes`. Panics propagate.
pub fn exercise(ctx: &mut Ctx, index: u64, bytes: &[u8], how: &str) {
    for e in [Endian::Le, Endian::Be] {
        let ctxt = Context::new_dbus(zendian(e), 0);
        let data = Data::new(bytes.to_vec(), ctxt);
        ctx.count("evaluations", 1);
        let start = alloc::window_start();
        let r = unsafe { Message::from_bytes(data) };
        match r {
            Err(_) => ctx.count("class:rejected", 1),
            Ok(msg) => {
                ctx.count("class:accepted", 1);
                let h = msg.header();
                let _ = (h.message_type(), h.path().map(|x| x.to_string()), h.interface().map(|x| x.to_string()),
                    h.member().map(|x| x.to_string()), h.error_name().map(|x| x.to_string()), h.reply_serial(),
                    h.destination().map(|x| x.to_string()), h.sender().map(|x| x.to_string()), h.signature().to_string(), h.unix_fds());
                let ph = msg.primary_header();
                let _ = (ph.msg_type(), ph.flags(), ph.body_len(), ph.serial_num(), ph.protocol_version(), ph.endian_sig());
                let _ = msg.message_type();
                let _ = msg.recv_position();
                let body = msg.body();
                let _ = (body.len(), body.is_empty(), body.signature().to_string());
                let _ = body.data().bytes().len();
                match body.deserialize::<Structure<'_>>() {
                    Ok(s) => {
                        ctx.count("class:body-decoded", 1);
                        let _ = format!("{s:?}");
                    }
                    Err(_) => ctx.count("class:body-rejected", 1),
                }
                let _ = body.deserialize::<&str>();
                let _ = body.deserialize::<(u32, String)>();
                let _ = format!("{msg}");
                let _ = format!("{msg:?}");
                // match rules that look into the body
                for rule in [
                    "type='signal',arg0='x',arg1='y'",
                    "arg0path='/a/',arg2='z'",
                    "arg0namespace='a.b',path_namespace='/a'",
                    "type='method_call',interface='a.b',member='C',destination=':1.1'",
                ] {
                    if let Ok(r) = MatchRule::try_from(rule) {
                        let _ = r.matches(&msg);
                    }
                }
            }
        }
        let (peak, biggest) = alloc::window_end(start);
        if peak > 512 * bytes.len() + (1 << 20) {
            ctx.finding(index, "excessive-allocation", "-", how,
                json!({"input_len": bytes.len(), "peak_bytes": peak, "largest_request": biggest, "bytes": vref::hex(&bytes[..bytes.len().min(256)])}));
        }
    }
}

fn header_mutation(b: &[u8], rng: &mut Rng) -> (Vec<u8>, &'static str) {
    let mut m = b.to_vec();
    match rng.below(8) {
        0 => {
            m[0] = *rng.pick(&[b'l', b'B', b'L', 0, 0xff, b'b']);
            (m, "endian-byte")
        }
        1 => {
            m[1] = rng.next_u64() as u8;
            (m, "type-byte")
        }
        2 => {
            m[2] = rng.next_u64() as u8;
            (m, "flags-byte")
        }
        3 => {
            m[3] = rng.next_u64() as u8;
            (m, "version-byte")
        }
        4 => {
            let v: u32 = *rng.pick(&[0u32, 1, 7, 8, 0xffff, 0x0800_0000, 0x7fff_ffff, 0xffff_ffff]);
            m[4..8].copy_from_slice(&v.to_le_bytes());
            (m, "body-len")
        }
        5 => {
            m[8..12].copy_from_slice(&[0, 0, 0, 0]);
            (m, "serial-zero")
        }
        6 => {
            let v: u32 = *rng.pick(&[0u32, 1, 7, 8, 9, 0xffff, 0x0400_0000, 0x7fff_ffff, 0xffff_ffff]);
            if m.len() >= 16 {
                m[12..16].copy_from_slice(&v.to_le_bytes());
            }
            (m, "fields-len")
        }
        _ => {
            // retype a field: flip the signature byte of some header field variant
            if m.len() > 20 {
                let p = 16 + rng.usize_below((m.len() - 16).min(64));
                m[p] = *rng.pick(b"souygvbai(\0");
            }
            (m, "field-retype")
        }
    }
}

pub fn run(ctx: &mut Ctx) {
    directed(ctx);
    let n = ctx.budget(30_000, 3_000_000);
    for i in 0..n {
        if !ctx.want(i) {
            continue;
        }
        let mut rng = ctx.rng(i);
        let big = rng.chance(1, 30);
        let m = gen_msg(&mut rng, &MsgOpts { allow_fd: false, max_body_args: 3, big });
        let (valid, marks) = m.marshal_marked();
        let mut inputs: Vec<(Vec<u8>, &'static str)> = vec![(valid.clone(), "valid")];
        for _ in 0..3 {
            let (mut x, mut l) = mutate(&valid, &marks, m.endian, &mut rng);
            if rng.chance(1, 4) {
                let (x2, l2) = mutate(&x, &marks, m.endian, &mut rng);
                x = x2;
                l = l2;
            }
            inputs.push((x, l));
        }
        for _ in 0..2 {
            inputs.push(header_mutation(&valid, &mut rng));
        }
        if rng.chance(1, 4) {
            let cut = rng.usize_below(valid.len());
            inputs.push((valid[..cut].to_vec(), "truncate-at"));
        }
        if rng.chance(1, 6) {
            let len = rng.usize_below(80);
            let mut r = rng.bytes(len);
            if !r.is_empty() && rng.bool() {
                r[0] = b'l';
            }
            inputs.push((r, "random"));
        }
        for (k, (bytes, how)) in inputs.into_iter().enumerate() {
            let note = format!("hostile-msg {how} #{k}");
            let hexb = vref::hex(&bytes[..bytes.len().min(600)]);
            ctx.count(&format!("input:{how}"), 1);
            ctx.distinct(fnv(how) ^ fnv(&m.body_sig_string()) ^ (m.mtype as u64));
            ctx.guarded(i, &note, || json!({"bytes": hexb, "input_kind": how}), |ctx| exercise(ctx, i, &bytes, how));
        }
        if i < 2 {
            ctx.sample(json!({"valid_message": vref::hex(&valid)}));
        }
    }
}

fn directed(ctx: &mut Ctx) {
    if ctx.args.shard != 0 {
        return;
    }
    let base = Msg::method_call(1, "/a", Some("a.b"), "M").with_body(vec![Val::S("x".into())]);
    let valid = base.marshal();
    let mut cases: Vec<(String, Vec<u8>)> = Vec::new();
    // empty and short inputs
    for n in 0..16 {
        cases.push((format!("short-{n}"), valid[..n].to_vec()));
    }
    // every truncation of a valid message
    for n in 16..valid.len() {
        cases.push((format!("truncate-{n}"), valid[..n].to_vec()));
    }
    // header fields holding invalid names (decoded through Value conversions)
    for (code, bad) in [(F_INTERFACE, ""), (F_INTERFACE, "nodots"), (F_MEMBER, "1x"), (F_MEMBER, ""), (F_ERROR_NAME, "."), (F_SENDER, "x"), (F_DESTINATION, ""), (F_SENDER, "")] {
        let mut m = Msg::method_call(1, "/a", None, "M");
        m.fields.push((code, Val::S(bad.into())));
        cases.push((format!("invalid-name-field-{code}-{bad:?}"), m.marshal()));
    }
    // body offset beyond the data: fields length says more than there is
    for fl in [0x100u32, 0xfff0, 0x7fff_fff0] {
        let mut b = valid.clone();
        b[12..16].copy_from_slice(&fl.to_le_bytes());
        cases.push((format!("fields-len-{fl:x}"), b));
    }
    // wrong types for known fields
    for (code, v) in [(F_PATH, Val::S("/a".into())), (F_REPLY_SERIAL, Val::S("1".into())), (F_SIGNATURE, Val::S("s".into())), (F_UNIX_FDS, Val::Y(1)), (F_REPLY_SERIAL, Val::U(0))] {
        let mut m = Msg::method_call(1, "/a", None, "M");
        m.fields.push((code, v));
        cases.push((format!("field-{code}-wrong-type"), m.marshal()));
    }
    // declared fds without fds, body shorter/longer than declared
    let mut m = Msg::method_call(1, "/a", None, "M");
    m.fields.push((F_UNIX_FDS, Val::U(3)));
    cases.push(("unix-fds-without-fds".into(), m.marshal()));
    cases.push(("body-len-smaller".into(), base.marshal_with(&[(F_PATH, Val::O("/a".into())), (F_MEMBER, Val::S("M".into())), (F_SIGNATURE, Val::G("s".into()))], Some(2))));
    cases.push(("body-len-larger".into(), base.marshal_with(&[(F_PATH, Val::O("/a".into())), (F_MEMBER, Val::S("M".into())), (F_SIGNATURE, Val::G("s".into()))], Some(200))));
    // signature says more than the body holds
    cases.push(("signature-longer-than-body".into(), base.marshal_with(&[(F_PATH, Val::O("/a".into())), (F_MEMBER, Val::S("M".into())), (F_SIGNATURE, Val::G("sss".into()))], None)));
    for (k, (name, bytes)) in cases.into_iter().enumerate() {
        let idx = 9_000_000_000 + k as u64;
        if !ctx.want(idx) {
            continue;
        }
        ctx.count("directed_hostile_messages", 1);
        let note = format!("directed-msg {name}");
        let hexb = vref::hex(&bytes[..bytes.len().min(300)]);
        ctx.guarded(idx, &note, || json!({"name": name, "bytes": hexb}), |ctx| exercise(ctx, idx, &bytes, "directed"));
    }
}
