//! C15 — message serial numbers are never zero and never repeat, however many
//! threads build messages concurrently; also across the 32-bit wrap-around
//! (reached through the cfg(zbus_verif) counter hook).

use serde_json::json;
use std::collections::HashMap;
use std::sync::{Arc, Barrier};
use vcommon::Ctx;
use vref::prng::{fnv, Rng};
use zbus::message::Message;

fn build_serial() -> u32 {
    Message::signal("/", "a.b", "C").unwrap().build(&()).unwrap().primary_header().serial_num().get()
}

/// Run `threads` x `per` concurrent builds; returns per-thread serial lists in build order.
fn storm(threads: usize, per: usize, seed: u64, kinds: bool) -> Vec<Vec<u32>> {
    let barrier = Arc::new(Barrier::new(threads));
    let mut hs = Vec::new();
    for t in 0..threads {
        let b = barrier.clone();
        hs.push(std::thread::spawn(move || {
            let mut rng = Rng::new(seed ^ (t as u64) << 32);
            let mut v = Vec::with_capacity(per);
            b.wait();
            for i in 0..per {
                // several construction paths share the one counter
                let s = if kinds && i % 3 == 1 {
                    Message::method_call("/", "M").unwrap().build(&(1u32,)).unwrap().primary_header().serial_num().get()
                } else if kinds && i % 3 == 2 {
                    zbus::message::PrimaryHeader::new(zbus::message::Type::Signal, 0).serial_num().get()
                } else {
                    build_serial()
                };
                v.push(s);
                if rng.chance(1, 64) {
                    std::thread::yield_now();
                }
            }
            v
        }));
    }
    hs.into_iter().map(|h| h.join().unwrap()).collect()
}

fn check(ctx: &mut Ctx, index: u64, label: &str, lists: &[Vec<u32>], expect_range: Option<(u32, u64)>) {
    let total: usize = lists.iter().map(|l| l.len()).sum();
    ctx.count("evaluations", 1);
    ctx.count("serials_observed", total as u64);
    let mut owner: HashMap<u32, usize> = HashMap::with_capacity(total);
    for (t, l) in lists.iter().enumerate() {
        for s in l {
            if *s == 0 {
                ctx.finding(index, "zero-serial", "-", label, json!({"thread": t}));
            }
            if let Some(prev) = owner.insert(*s, t) {
                ctx.finding(index, "duplicate-serial", "-", label, json!({"serial": s, "threads": [prev, t], "total": total}));
            }
        }
        // within one thread serials are handed out in increasing order (modulo the wrap)
        for w in l.windows(2) {
            if w[1] == w[0] {
                ctx.finding(index, "duplicate-serial", "same-thread", label, json!({"serial": w[0]}));
            }
        }
    }
    // contention measure: adjacent serial values owned by different threads
    let mut all: Vec<u32> = owner.keys().cloned().collect();
    all.sort();
    let mut switches = 0u64;
    for w in all.windows(2) {
        if owner[&w[0]] != owner[&w[1]] {
            switches += 1;
        }
    }
    ctx.count("interleaving_switches", switches);
    // the storm written out for the evidence file: the first serials each thread was handed, and how interleaved the run was
    ctx.sample(json!({"storm": label, "threads": lists.len(), "serials_observed": total, "counter_start": expect_range.map(|r| r.0),
        "lowest": all.first(), "highest": all.last(), "interleaving_switches": switches,
        "first_serials_per_thread": lists.iter().take(4).map(|l| l.iter().take(6).cloned().collect::<Vec<u32>>()).collect::<Vec<_>>()}));
    ctx.distinct(fnv(label) ^ switches.wrapping_mul(0x9E3779B97F4A7C15) ^ total as u64);
    if let Some((start, n)) = expect_range {
        // the multiset must be exactly the contiguous range from `start`, skipping zero
        let mut want: Vec<u32> = Vec::new();
        let mut x = start;
        while (want.len() as u64) < n {
            if x != 0 {
                want.push(x);
            }
            x = x.wrapping_add(1);
        }
        let mut got = all.clone();
        want.sort();
        got.sort();
        if got != want {
            let missing: Vec<u32> = want.iter().filter(|w| !got.contains(w)).take(5).cloned().collect();
            let extra: Vec<u32> = got.iter().filter(|g| !want.contains(g)).take(5).cloned().collect();
            ctx.finding(index, "serial-range-differs", "-", label, json!({"start": start, "n": n, "missing": missing, "extra": extra}));
        }
    }
}

/// Zero-crossing hammer: persistent threads, released together right at a counter value of 0 or just below the wrap, each
/// taking a few serials per round. The skip-zero step is the one place where handing out a serial is more than a single atomic
/// operation; a storm crosses it once, the hammer crosses it `rounds` times under full contention.
/// The release is two-staged: the coordinator sets the counter and opens the round (generation counter), then the workers
/// rendezvous among themselves (arrival counter) — so at the moment the last one arrives every worker that is still spinning is
/// on a CPU, whatever else the machine is doing — and only then take their serials.
/// Returns, per round, the serials taken by each thread.
fn hammer(threads: usize, rounds: usize, per: usize, seed: u64) -> Vec<(u32, Vec<Vec<u32>>)> {
    use std::sync::atomic::{AtomicUsize, Ordering};
    let gen = Arc::new(AtomicUsize::new(0));
    let arrived = Arc::new(AtomicUsize::new(0));
    let done = Arc::new(AtomicUsize::new(0));
    let results: Arc<std::sync::Mutex<Vec<Vec<Vec<u32>>>>> = Arc::new(std::sync::Mutex::new(vec![vec![Vec::new(); threads]; rounds]));
    let mut hs = Vec::new();
    for t in 0..threads {
        let (gen, arrived, done, results) = (gen.clone(), arrived.clone(), done.clone(), results.clone());
        hs.push(std::thread::spawn(move || {
            let mut local: Vec<Vec<u32>> = Vec::with_capacity(rounds);
            for r in 0..rounds {
                let mut spins = 0u32;
                while gen.load(Ordering::Acquire) <= r {
                    spins += 1;
                    if spins > 2_000 || cfg!(miri) {
                        std::thread::yield_now();
                    } else {
                        std::hint::spin_loop();
                    }
                }
                arrived.fetch_add(1, Ordering::AcqRel);
                let mut spins = 0u32;
                while arrived.load(Ordering::Acquire) < (r + 1) * threads {
                    spins += 1;
                    if spins > 5_000 || cfg!(miri) {
                        std::thread::yield_now();
                    } else {
                        std::hint::spin_loop();
                    }
                }
                let mut v = Vec::with_capacity(per);
                for _ in 0..per {
                    v.push(zbus::message::PrimaryHeader::new(zbus::message::Type::Signal, 0).serial_num().get());
                }
                local.push(v);
                done.fetch_add(1, Ordering::AcqRel);
            }
            let mut res = results.lock().unwrap();
            for (r, v) in local.into_iter().enumerate() {
                res[r][t] = v;
            }
        }));
    }
    let mut rng = Rng::new(seed);
    let mut starts = Vec::with_capacity(rounds);
    for r in 0..rounds {
        let start = match rng.below(4) {
            0 => 0,
            1 => u32::MAX,
            2 => u32::MAX - rng.below(threads as u64) as u32,
            _ => u32::MAX - rng.below((threads * per) as u64) as u32,
        };
        starts.push(start);
        zbus::message::verif_set_next_serial(start);
        gen.store(r + 1, Ordering::Release);
        // the coordinator only waits: it gives its CPU away at once
        while done.load(Ordering::Acquire) < (r + 1) * threads {
            std::thread::yield_now();
        }
    }
    for h in hs {
        h.join().unwrap();
    }
    let res = std::mem::take(&mut *results.lock().unwrap());
    starts.into_iter().zip(res).collect()
}

/// Judge one batch of hammer rounds; returns the number of rounds in which the threads' serials interleaved.
fn judge_hammer(ctx: &mut Ctx, first_round: usize, out: &[(u32, Vec<Vec<u32>>)]) -> u64 {
    let mut interleaved = 0u64;
    for (i, (start, lists)) in out.iter().enumerate() {
        let r = first_round + i;
        ctx.count("zero_crossings_under_contention", 1);
        let mut owner: HashMap<u32, usize> = HashMap::new();
        let mut all: Vec<u32> = Vec::new();
        for (t, l) in lists.iter().enumerate() {
            for s in l {
                all.push(*s);
                if *s == 0 {
                    ctx.finding(8_000_000_000, "zero-serial", "-", "zero-crossing-hammer", json!({"round": r, "counter_start": start, "thread": t, "serials": lists}));
                }
                if let Some(prev) = owner.insert(*s, t) {
                    ctx.finding(8_000_000_000, "duplicate-serial", "-", "zero-crossing-hammer", json!({"round": r, "counter_start": start, "serial": s, "threads": [prev, t], "serials": lists}));
                }
            }
        }
        // the round is the contiguous range from the start, zero skipped
        let mut want: Vec<u32> = Vec::new();
        let mut x = *start;
        while want.len() < all.len() {
            if x != 0 {
                want.push(x);
            }
            x = x.wrapping_add(1);
        }
        all.sort();
        want.sort();
        if all != want {
            ctx.finding(8_000_000_000, "serial-range-differs", "-", "zero-crossing-hammer", json!({"round": r, "counter_start": start, "serials": lists}));
        }
        // how parallel was it: rounds in which some thread's serials are not one contiguous block
        if lists.iter().any(|l| l.windows(2).any(|w| w[1] != w[0].wrapping_add(1) && !(w[0] == u32::MAX && w[1] == 1))) {
            interleaved += 1;
        }
    }
    interleaved
}

pub fn run(ctx: &mut Ctx) {
    // Each shard process owns its own counter, so shards are independent runs.
    let rounds = ctx.budget(56, 1120);
    for r in 0..rounds {
        if !ctx.want(r) {
            continue;
        }
        let mut rng = ctx.rng(r);
        let threads = *rng.pick(&[2usize, 4, 8, 16]);
        let per = if ctx.thorough() { 20_000 } else { 6_000 };
        let wrap = r % 2 == 1;
        let note = format!("storm threads={threads} per={per} wrap={wrap}");
        ctx.guarded(r, &note, || json!({"threads": threads, "per": per, "wrap": wrap}), |ctx| {
            if wrap {
                // start shortly before the wrap so that it happens in the middle of the storm
                let back = 1 + rng.below((threads * per) as u64 / 2) as u32;
                let start = u32::MAX - back;
                zbus::message::verif_set_next_serial(start);
                let lists = storm(threads, per, rng.next_u64(), true);
                ctx.count("class:wrap-around", 1);
                check(ctx, r, "wrap", &lists, Some((start, (threads * per) as u64)));
            } else {
                let start = zbus::message::verif_peek_next_serial();
                let lists = storm(threads, per, rng.next_u64(), true);
                ctx.count("class:plain", 1);
                check(ctx, r, "plain", &lists, Some((start, (threads * per) as u64)));
            }
        });
    }
    // exact boundary, single-threaded: MAX-1, MAX, (0 skipped), 1
    if ctx.args.shard == 0 && ctx.want(9_000_000_000) {
        ctx.guarded(9_000_000_000, "boundary", || json!({}), |ctx| {
            zbus::message::verif_set_next_serial(u32::MAX - 1);
            let got: Vec<u32> = (0..4).map(|_| build_serial()).collect();
            ctx.count("evaluations", 1);
            ctx.count("class:boundary", 1);
            if got != vec![u32::MAX - 1, u32::MAX, 1, 2] {
                ctx.finding(9_000_000_000, "wrap-boundary-sequence", "-", "single-thread", json!({"got": got, "expected": [u32::MAX - 1, u32::MAX, 1, 2]}));
            }
            ctx.sample(json!({"boundary_sequence": got}));
        });
    }
    // The zero-crossing hammer last: by then the sibling shards' storms (up to 16 threads each) are over or nearly so, and the
    // spinning workers get CPUs of their own.
    // (spinning threads: only two shards run it, with few threads, so that the machine is not oversubscribed by the gate itself)
    // (under Miri threads are interleaved by the interpreter and a spin gate costs seconds per round: a token number of rounds)
    // How contended a round is depends on what the machine is doing (the sibling shards' storms, other tenants of the host), so
    // the amount of work is not fixed in advance: batches of rounds are run until BOTH the minimum number of rounds AND the
    // wanted number of rounds with interleaved threads have been observed. Only if the round or wall-clock cap is reached first
    // does the coverage gate (checklib/props.py) report the run as inconclusive.
    let (min_rounds, max_rounds, want_interleaved, cap_secs): (usize, usize, u64, u64) = if cfg!(miri) {
        (12, 12, 0, 0)
    } else if ctx.thorough() {
        (400_000, 12_000_000, 40_000, 1800)
    } else {
        (30_000, 6_000_000, 4_000, 600)
    };
    // never more spinning workers than the CPUs this process may use can run at once; with few CPUs one shard hammers, not two
    let cpus = std::thread::available_parallelism().map(|n| n.get()).unwrap_or(1);
    let hammer_shards: u64 = if cpus >= 8 { 2 } else { 1 };
    let want_interleaved = want_interleaved * 2 / hammer_shards;
    if ctx.want(8_000_000_000) && ctx.args.shard < hammer_shards {
        let mut rng = ctx.rng(8_000_000_000);
        let threads = (*rng.pick(&[3usize, 4])).min(cpus.saturating_sub(1)).max(2);
        let note = format!("zero-crossing hammer threads={threads} rounds>={min_rounds}");
        ctx.guarded(8_000_000_000, &note, || json!({"threads": threads, "min_rounds": min_rounds}), |ctx| {
            let t0 = std::time::Instant::now();
            let batch = if cfg!(miri) { 12 } else { 10_000 };
            let (mut rounds, mut interleaved, mut batches) = (0usize, 0u64, 0u64);
            let mut sampled = false;
            ctx.count("evaluations", 1);
            ctx.count("class:zero-crossing-hammer", 1);
            loop {
                let out = hammer(threads, batch, 3, rng.next_u64());
                interleaved += judge_hammer(ctx, rounds, &out);
                rounds += out.len();
                batches += 1;
                if !sampled {
                    if let Some((start, lists)) = out.iter().find(|(s, _)| *s == 0 || *s == u32::MAX) {
                        ctx.max_samples += 1; // the storms before used this shard's sample slots
                        ctx.sample(json!({"zero_crossing_round": {"counter_start": start, "serials_per_thread": lists}, "threads": threads}));
                        sampled = true;
                    }
                }
                let enough = rounds >= min_rounds && interleaved >= want_interleaved;
                if enough || rounds >= max_rounds || t0.elapsed().as_secs() >= cap_secs || ctx.findings_reported() > 0 {
                    break;
                }
            }
            ctx.count("hammer_rounds_with_interleaved_threads", interleaved);
            ctx.count("hammer_batches", batches);
            ctx.count("hammer_wall_ms", t0.elapsed().as_millis() as u64);
            ctx.distinct(fnv("hammer") ^ interleaved);
        });
    }
}
