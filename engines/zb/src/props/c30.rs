//! C30 — object server use from handlers and right after setup does not hang.
//!
//! Deadlock / lost-call verdicts are taken at quiescence (logical time): every
//! call the scripted peer made must have exactly one reply when no actor can
//! move any more.

use crate::harness::peer::RawPeer;
use crate::harness::sched::Sched;
use crate::harness::util::*;
use crate::harness::wire::Wire;
use crate::props::c24::{run_task, IfA, IfB};
use serde_json::json;
use vcommon::Ctx;
use vref::msg::*;
use vref::prng::{fnv, Rng};
use vref::val::Val;
use zbus::object_server::SignalEmitter;
use zbus::ObjectServer;

pub struct Reent {
    knob: u32,
}

#[zbus::interface(name = "t.Reent")]
impl Reent {
    async fn add_child(&self, n: u32, #[zbus(object_server)] os: &ObjectServer) -> bool {
        os.at(format!("/r/c{n}"), IfA { tag: n }).await.unwrap_or(false)
    }
    async fn remove_child(&self, n: u32, #[zbus(object_server)] os: &ObjectServer) -> bool {
        os.remove::<IfA, _>(format!("/r/c{n}")).await.unwrap_or(false)
    }
    async fn lookup(&self, #[zbus(object_server)] os: &ObjectServer) -> bool {
        os.interface::<_, IfB>("/b").await.is_ok()
    }
    async fn emit(&self, #[zbus(signal_emitter)] e: SignalEmitter<'_>) -> bool {
        Self::ping(&e, 7).await.is_ok()
    }
    async fn mutate(&mut self, n: u32, #[zbus(object_server)] os: &ObjectServer) -> bool {
        self.knob = n;
        os.at(format!("/r/m{n}"), IfA { tag: n }).await.unwrap_or(false)
    }
    #[zbus(signal)]
    async fn ping(e: &SignalEmitter<'_>, v: u32) -> zbus::Result<()>;

    /// getter that looks into the object server
    #[zbus(property)]
    async fn probe(&self, #[zbus(object_server)] os: &ObjectServer) -> bool {
        os.interface::<_, IfB>("/b").await.is_ok()
    }
    /// getter that registers an object
    #[zbus(property)]
    async fn grow(&self, #[zbus(object_server)] os: &ObjectServer) -> u32 {
        let _ = os.at("/r/grown", IfA { tag: 1 }).await;
        1
    }
    /// getter that emits a signal
    #[zbus(property)]
    async fn noisy(&self, #[zbus(signal_emitter)] e: SignalEmitter<'_>) -> u32 {
        let _ = Self::ping(&e, 9).await;
        2
    }
    #[zbus(property)]
    async fn knob(&self) -> u32 {
        self.knob
    }
    /// setter that registers and removes objects
    #[zbus(property)]
    async fn set_knob(&mut self, v: u32, #[zbus(object_server)] os: &ObjectServer) {
        self.knob = v;
        let _ = os.at(format!("/r/k{v}"), IfA { tag: v }).await;
        let _ = os.remove::<IfA, _>(format!("/r/k{}", v.wrapping_sub(1))).await;
    }
}

/// An interface whose (plain) property is read by the library itself when it
/// is registered below an ObjectManager, and whose getter looks into the server.
pub struct Managed;

#[zbus::interface(name = "t.Managed")]
impl Managed {
    #[zbus(property)]
    async fn sees_b(&self, #[zbus(object_server)] os: &ObjectServer) -> bool {
        os.interface::<_, IfB>("/b").await.is_ok()
    }
}

fn props_get(serial: u32, path: &str, iface: &str, prop: &str) -> Msg {
    Msg::method_call(serial, path, Some("org.freedesktop.DBus.Properties"), "Get").with_body(vec![Val::S(iface.into()), Val::S(prop.into())])
}

fn scenario_calls(kind: usize, peer: &mut RawPeer) -> Vec<(u32, String, Msg)> {
    let mut v = Vec::new();
    let mut add = |peer: &mut RawPeer, label: &str, f: &dyn Fn(u32) -> Msg| {
        let s = peer.serial();
        v.push((s, label.to_string(), f(s)));
    };
    match kind {
        0 => add(peer, "method:AddChild", &|s| Msg::method_call(s, "/r", Some("t.Reent"), "AddChild").with_body(vec![Val::U(1)])),
        1 => add(peer, "method:RemoveChild", &|s| Msg::method_call(s, "/r", Some("t.Reent"), "RemoveChild").with_body(vec![Val::U(1)])),
        2 => add(peer, "method:Lookup", &|s| Msg::method_call(s, "/r", Some("t.Reent"), "Lookup")),
        3 => add(peer, "method:Emit", &|s| Msg::method_call(s, "/r", Some("t.Reent"), "Emit")),
        4 => add(peer, "method-mut:Mutate", &|s| Msg::method_call(s, "/r", Some("t.Reent"), "Mutate").with_body(vec![Val::U(3)])),
        5 => add(peer, "Properties.Get:Probe(lookup)", &|s| props_get(s, "/r", "t.Reent", "Probe")),
        6 => add(peer, "Properties.Get:Grow(at)", &|s| props_get(s, "/r", "t.Reent", "Grow")),
        7 => add(peer, "Properties.Get:Noisy(signal)", &|s| props_get(s, "/r", "t.Reent", "Noisy")),
        8 => add(peer, "Properties.Set:Knob(at+remove)", &|s| {
            Msg::method_call(s, "/r", Some("org.freedesktop.DBus.Properties"), "Set").with_body(vec![Val::S("t.Reent".into()), Val::S("Knob".into()), Val::V(Box::new(Val::U(5)))])
        }),
        9 => add(peer, "Properties.GetAll", &|s| Msg::method_call(s, "/r", Some("org.freedesktop.DBus.Properties"), "GetAll").with_body(vec![Val::S("t.Reent".into())])),
        10 => {
            // several at once
            add(peer, "burst:AddChild", &|s| Msg::method_call(s, "/r", Some("t.Reent"), "AddChild").with_body(vec![Val::U(2)]));
            add(peer, "burst:Properties.Get:Probe", &|s| props_get(s, "/r", "t.Reent", "Probe"));
            add(peer, "burst:Lookup", &|s| Msg::method_call(s, "/r", Some("t.Reent"), "Lookup"));
            add(peer, "burst:Properties.Get:Grow", &|s| props_get(s, "/r", "t.Reent", "Grow"));
        }
        _ => add(peer, "Properties.Get:Knob(plain)", &|s| props_get(s, "/r", "t.Reent", "Knob")),
    }
    v
}

const NKINDS: usize = 12;

fn handler_case(ctx: &mut Ctx, index: u64, kind: usize, rng: &mut Rng) {
    ctx.count("evaluations", 1);
    let wire = Wire::new(rng.next_u64());
    let mut sched = Sched::new(Rng::new(rng.next_u64()));
    let bias = *rng.pick(&[(4u64, 3u64, 2u64), (6, 1, 6), (1, 6, 1), (2, 2, 6)]);
    sched.w_ex = bias.0;
    sched.w_h = bias.1;
    sched.w_net = bias.2;
    let conn = match connect_authenticated(&mut sched, &wire) {
        Ok(c) => c,
        Err(e) => {
            ctx.finding(index, "harness-or-hang", "-", "connect", json!({"error": e}));
            return;
        }
    };
    let w2 = wire.clone();
    sched.add_net(Box::new(move || w2.release_one()));
    let c2 = conn.clone();
    let setup = run_task(&mut sched, async move {
        let os = c2.object_server();
        os.at("/r", Reent { knob: 0 }).await.is_ok() && os.at("/b", IfB { tag: 9 }).await.is_ok() && os.at("/r/c1", IfA { tag: 1 }).await.is_ok()
    });
    if setup != Some(true) {
        ctx.finding(index, "setup-did-not-complete", "-", "-", json!({}));
        return;
    }
    sched.run_to_quiescence();
    let mut peer = RawPeer::new(&wire);
    let calls = scenario_calls(kind, &mut peer);
    for (_, _, m) in &calls {
        let chunks: Vec<usize> = if rng.bool() { vec![] } else { vec![1 + rng.usize_below(40)] };
        peer.send(m, vec![], &chunks);
    }
    let q = sched.run_to_quiescence();
    let replies = peer.pump();
    ctx.distinct(sched.fingerprint() ^ kind as u64);
    let trace = sched.trace_string();
    if index % 7 == 0 {
        let outcomes: Vec<_> = calls.iter().map(|(s, label, _)| {
            let rs: Vec<_> = replies.iter().filter(|r| r.msg.reply_serial() == Some(*s)).collect();
            json!({"call": label, "replies": rs.len(), "reply_type": rs.first().map(|r| r.msg.mtype), "error": rs.first().and_then(|r| r.msg.error_name().map(|e| e.to_string()))})
        }).collect();
        ctx.sample(json!({"class": "handler", "scenario_kind": kind, "calls": outcomes, "quiescent": q, "schedule": trace.chars().take(160).collect::<String>()}));
    }
    for (s, label, _) in &calls {
        let rs: Vec<_> = replies.iter().filter(|r| r.msg.reply_serial() == Some(*s)).collect();
        ctx.count("calls_checked", 1);
        if rs.is_empty() {
            ctx.finding(index, "call-unanswered-at-quiescence", label, "-", json!({"scenario": label, "quiescent": q, "trace": trace}));
        } else if rs.len() > 1 {
            ctx.finding(index, "call-answered-more-than-once", label, "-", json!({"scenario": label, "n": rs.len()}));
        } else if rs[0].msg.mtype == ERROR && !label.contains("RemoveChild") {
            ctx.finding(index, "handler-call-failed", label, rs[0].msg.error_name().unwrap_or("?"), json!({"scenario": label, "error": rs[0].msg.error_name(), "body": rs[0].msg.body.iter().map(|b| b.show()).collect::<Vec<_>>()}));
        }
    }
    // the connection must still be serving afterwards
    let s = peer.serial();
    peer.send(&Msg::method_call(s, "/b", Some("t.B"), "Tag"), vec![], &[]);
    sched.run_to_quiescence();
    let after = peer.pump();
    if !after.iter().any(|r| r.msg.reply_serial() == Some(s)) {
        ctx.finding(index, "server-stuck-after-handler", &calls[0].1, "-", json!({"scenario": calls[0].1, "trace": sched.trace_string()}));
    }
}

/// Registering under an ObjectManager an interface whose getter looks into the object server.
fn manager_case(ctx: &mut Ctx, index: u64, rng: &mut Rng) {
    ctx.count("evaluations", 1);
    let wire = Wire::new(rng.next_u64());
    let mut sched = Sched::new(Rng::new(rng.next_u64()));
    let conn = match connect_authenticated(&mut sched, &wire) {
        Ok(c) => c,
        Err(e) => {
            ctx.finding(index, "harness-or-hang", "-", "connect", json!({"error": e}));
            return;
        }
    };
    let w2 = wire.clone();
    sched.add_net(Box::new(move || w2.release_one()));
    let c2 = conn.clone();
    let r = run_task(&mut sched, async move {
        let os = c2.object_server();
        let a = os.at("/m", zbus::fdo::ObjectManager).await.is_ok();
        let b = os.at("/b", IfB { tag: 1 }).await.is_ok();
        // the library reads the new interface's properties for InterfacesAdded
        let c = os.at("/m/x", Managed).await.is_ok();
        a && b && c
    });
    ctx.count("calls_checked", 1);
    ctx.distinct(sched.fingerprint() ^ 0xabc);
    if r.is_none() {
        ctx.finding(index, "registration-under-object-manager-hangs", "getter-uses-object-server", "-", json!({"trace": sched.trace_string()}));
    }
}

/// On-demand server creation followed immediately by a peer call.
fn lazy_case(ctx: &mut Ctx, index: u64, rng: &mut Rng) {
    ctx.count("evaluations", 1);
    let wire = Wire::new(rng.next_u64());
    let mut sched = Sched::new(Rng::new(rng.next_u64()));
    let bias = *rng.pick(&[(4u64, 3u64, 2u64), (6, 1, 6), (1, 6, 1), (2, 2, 6), (1, 1, 8)]);
    sched.w_ex = bias.0;
    sched.w_h = bias.1;
    sched.w_net = bias.2;
    let conn = match connect_authenticated(&mut sched, &wire) {
        Ok(c) => c,
        Err(e) => {
            ctx.finding(index, "harness-or-hang", "-", "connect", json!({"error": e}));
            return;
        }
    };
    let w2 = wire.clone();
    sched.add_net(Box::new(move || w2.release_one()));
    let mut peer = RawPeer::new(&wire);
    // unrelated inbound traffic already released to the transport before the registration
    let pre = rng.usize_below(3);
    for _ in 0..pre {
        let s = peer.serial();
        peer.send(&Msg::signal(s, "/n", "n.n", "N").with_body(vec![Val::U(s)]), vec![], &[]);
        wire.release_one();
    }
    let c2 = conn.clone();
    let reg = run_task(&mut sched, async move { c2.object_server().at("/x", IfA { tag: 77 }).await.is_ok() });
    if reg != Some(true) {
        ctx.finding(index, "registration-did-not-complete", "-", "-", json!({}));
        return;
    }
    // the registration has returned: a call arriving from now on must be dispatched
    let gap = rng.below(4);
    sched.run_steps(gap);
    let s = peer.serial();
    peer.send(&Msg::method_call(s, "/x", Some("t.A"), "Tag"), vec![], &[]);
    // the call's bytes reach the transport right away (the reader may already be runnable)
    wire.release_one();
    let q = sched.run_to_quiescence();
    let replies = peer.pump();
    ctx.count("calls_checked", 1);
    ctx.count(&format!("class:lazy-pre{pre}-gap{gap}"), 1);
    ctx.distinct(sched.fingerprint() ^ (pre as u64) << 8 ^ gap);
    let rs: Vec<_> = replies.iter().filter(|r| r.msg.reply_serial() == Some(s)).collect();
    if index % 5 == 0 {
        ctx.sample(json!({"class": "call-right-after-on-demand-server-creation", "pre_messages": pre, "gap_steps": gap, "replies": rs.len(), "reply_type": rs.first().map(|r| r.msg.mtype), "quiescent": q, "schedule": sched.trace_string().chars().take(160).collect::<String>()}));
    }
    if rs.is_empty() {
        ctx.finding(index, "call-after-registration-never-dispatched", "on-demand-object-server", "-", json!({"pre_messages": pre, "gap_steps": gap, "quiescent": q, "trace": sched.trace_string()}));
    } else if rs[0].msg.mtype != METHOD_RETURN {
        ctx.finding(index, "call-after-registration-failed", "on-demand-object-server", "-", json!({"error": rs[0].msg.error_name()}));
    }
}

pub fn run(ctx: &mut Ctx) {
    let n = ctx.budget(3000, 150_000);
    for i in 0..n {
        if !ctx.want(i) {
            continue;
        }
        let mut rng = ctx.rng(i);
        let kind = (i % (NKINDS as u64 + 4)) as usize;
        if kind < NKINDS {
            ctx.guarded(i, &format!("handler kind={kind}"), || json!({"kind": kind}), |ctx| handler_case(ctx, i, kind, &mut rng));
        } else if kind == NKINDS {
            ctx.guarded(i, "manager", || json!({}), |ctx| manager_case(ctx, i, &mut rng));
        } else {
            ctx.guarded(i, "lazy", || json!({}), |ctx| lazy_case(ctx, i, &mut rng));
        }
    }
    let _ = fnv;
}
