//! C16 — the server-side SASL handshake authenticates exactly the right peers.
//!
//! The real `Builder::socket(..).server(..).p2p().build()` runs over the
//! scripted transport against scripted client bytes; outcome and replies are
//! compared with the reference server model. Finding classes are kept apart:
//! `auth-unsound` (library authenticated, model did not), `auth-refused` (the
//! converse), `reply-nonconformant`, `panic`.

use crate::harness::sched::Sched;
use crate::harness::util::*;
use crate::harness::wire::Wire;
use serde_json::json;
use vcommon::Ctx;
use vref::prng::{fnv, Rng};
use vref::sasl::*;
use zbus::conn::AuthMechanism;
use zbus::connection::Builder;
use zbus::{Connection, Guid};

pub const UID: u32 = 1000;

pub fn templates() -> Vec<(&'static str, Vec<u8>)> {
    let hex = |s: &str| s.bytes().map(|b| format!("{b:02x}")).collect::<String>();
    vec![
        ("AUTH", b"AUTH".to_vec()),
        ("AUTH-EXT", b"AUTH EXTERNAL".to_vec()),
        ("AUTH-EXT-uid", format!("AUTH EXTERNAL {}", hex(&UID.to_string())).into_bytes()),
        ("AUTH-EXT-other", format!("AUTH EXTERNAL {}", hex("4242")).into_bytes()),
        ("AUTH-EXT-nonnumeric", format!("AUTH EXTERNAL {}", hex("root")).into_bytes()),
        // identities whose decoded bytes are not UTF-8 (alone, and behind the right uid)
        ("AUTH-EXT-nonutf8-id", b"AUTH EXTERNAL ff".to_vec()),
        ("AUTH-EXT-uid-then-ff", format!("AUTH EXTERNAL {}ff", hex(&UID.to_string())).into_bytes()),
        ("DATA-nonutf8-id", b"DATA fffe".to_vec()),
        ("AUTH-EXT-badhex", b"AUTH EXTERNAL 3g".to_vec()),
        ("AUTH-EXT-oddhex", b"AUTH EXTERNAL 313".to_vec()),
        ("AUTH-ANON", b"AUTH ANONYMOUS".to_vec()),
        ("AUTH-ANON-trace", format!("AUTH ANONYMOUS {}", hex("trace")).into_bytes()),
        ("AUTH-unknown-mech", b"AUTH DBUS_COOKIE_SHA1".to_vec()),
        ("DATA", b"DATA".to_vec()),
        ("DATA-uid", format!("DATA {}", hex(&UID.to_string())).into_bytes()),
        ("DATA-other", format!("DATA {}", hex("4242")).into_bytes()),
        ("BEGIN", b"BEGIN".to_vec()),
        ("CANCEL", b"CANCEL".to_vec()),
        ("ERROR", b"ERROR oops".to_vec()),
        ("NEGOTIATE", b"NEGOTIATE_UNIX_FD".to_vec()),
        ("unknown-command", b"FOO bar".to_vec()),
        ("empty-line", b"".to_vec()),
        ("non-utf8", vec![b'A', b'U', b'T', b'H', b' ', 0xff, 0xfe]),
        ("lowercase", b"auth external".to_vec()),
    ]
}

#[derive(Clone, Copy, Debug)]
pub struct Cfg {
    pub mech: Mech,
    pub uid: Option<u32>,
    pub can_fd: bool,
}

pub struct Outcome {
    pub result: Option<Result<Connection, String>>,
    pub replies: Vec<Vec<u8>>,
    pub raw_written: Vec<u8>,
    pub fingerprint: u64,
    pub steps: u64,
}

/// Run the library's server handshake against `input` cut at `chunks`.
pub fn run_server(rng: &mut Rng, cfg: &Cfg, input: &[u8], chunks: &[usize], eof: bool) -> Outcome {
    let wire = Wire::new(rng.next_u64());
    {
        let mut w = wire.lock();
        w.uid = cfg.uid;
        w.can_fd = cfg.can_fd;
        w.mech = match cfg.mech {
            Mech::External => AuthMechanism::External,
            Mech::Anonymous => AuthMechanism::Anonymous,
        };
        w.max_write = if rng.bool() { usize::MAX } else { 1 + rng.usize_below(9) };
        w.stall_pct = if rng.chance(1, 3) { 30 } else { 0 };
    }
    wire.stage(input, vec![], chunks);
    wire.lock().eof_at_end = eof;
    let mut sched = Sched::new(Rng::new(rng.next_u64()));
    let out: Slot<Result<Connection, String>> = slot();
    let o2 = out.clone();
    let sock = wire.socket();
    let mech = wire.lock().mech;
    sched.spawn("server-build", async move {
        let r = async {
            Builder::socket(sock)
                .server(Guid::try_from(GUID).unwrap())?
                .p2p()
                .auth_mechanism(mech)
                .internal_executor(false)
                .build()
                .await
        }
        .await;
        *o2.borrow_mut() = Some(r.map_err(|e| e.to_string()));
    });
    let w2 = wire.clone();
    sched.add_net(Box::new(move || w2.release_one()));
    let w3 = wire.clone();
    sched.add_net(Box::new(move || w3.unblock_write()));
    sched.run_to_quiescence();
    let raw = wire.all_written();
    let replies: Vec<Vec<u8>> = raw.split(|b| *b == b'\n').filter(|l| !l.is_empty()).map(|l| l.strip_suffix(b"\r").unwrap_or(l).to_vec()).collect();
    let result = out.borrow_mut().take();
    Outcome { result, replies, raw_written: raw, fingerprint: sched.fingerprint(), steps: sched.steps }
}

fn check_case(ctx: &mut Ctx, index: u64, rng: &mut Rng, cfg: &Cfg, names: &[&str], lines: &[Vec<u8>], chunks: &[usize], raw_override: Option<Vec<u8>>) {
    ctx.count("evaluations", 1);
    let scfg = ServerCfg { mech: cfg.mech, peer_uid: cfg.uid, can_fd: cfg.can_fd };
    let model = server_model(lines, &scfg);
    // only the lines the model consumes are sent (after BEGIN the stream is messages)
    let sent = &lines[..model.lines_consumed];
    let mut input = vec![0u8];
    for l in sent {
        input.extend_from_slice(l);
        input.extend_from_slice(b"\r\n");
    }
    let input = raw_override.unwrap_or(input);
    let o = run_server(rng, cfg, &input, chunks, true);
    ctx.distinct(o.fingerprint ^ fnv(&names.join(",")) ^ fnv(&format!("{cfg:?}")));
    let desc = json!({"mech": format!("{:?}", cfg.mech), "peer_uid": cfg.uid, "can_fd": cfg.can_fd, "lines": names, "chunks": chunks.len(),
                      "library": match &o.result { Some(Ok(_)) => "authenticated".to_string(), Some(Err(e)) => format!("error: {e}"), None => "pending".into() },
                      "library_replies": o.replies.iter().map(|r| String::from_utf8_lossy(r).to_string()).collect::<Vec<_>>(),
                      "model_replies": model.steps.iter().map(|s| format!("{:?}", s.1)).collect::<Vec<_>>(), "model_authenticated": model.authenticated});
    if index % 499 == 0 || (names.len() >= 3 && index % 61 == 0) {
        ctx.sample(desc.clone());
    }
    let lib_auth = matches!(o.result, Some(Ok(_)));
    ctx.count(if lib_auth { "class:lib-authenticated" } else { "class:lib-not-authenticated" }, 1);
    ctx.count(if model.authenticated { "class:model-authenticated" } else { "class:model-not-authenticated" }, 1);
    let shape = |upto: usize| -> String {
        let u = upto.min(names.len());
        names[u.saturating_sub(3)..u].join(">")
    };
    if lib_auth && !model.authenticated {
        let cred = if cfg.uid.is_some() { "creds-known" } else { "creds-unknown" };
        ctx.finding(index, "auth-unsound", &format!("{:?}:{cred}", cfg.mech), &shape(model.lines_consumed), desc.clone());
        return;
    }
    if !lib_auth && model.authenticated {
        ctx.finding(index, "auth-refused", &format!("{:?}", cfg.mech), &shape(model.lines_consumed), desc.clone());
    }
    if o.result.is_none() {
        ctx.finding(index, "handshake-pending-at-quiescence", "-", &shape(model.lines_consumed), desc.clone());
    }
    // conformance of the replies, line by line, up to the first disagreement
    for (k, (state, expected)) in model.steps.iter().enumerate() {
        let got = o.replies.get(k).and_then(|r| classify_reply(r, GUID));
        let ok = match &got {
            Some(g) => reply_ok(expected, g),
            None => {
                // no reply: acceptable only where the model allows a disconnect
                matches!(expected, SReply::DisconnectOrError) && !lib_auth
            }
        };
        if !ok {
            let lib = match (&got, o.replies.get(k)) {
                (Some(g), _) => format!("{g:?}"),
                (None, Some(r)) => format!("unparsable:{}", String::from_utf8_lossy(r)),
                (None, None) => "no-reply(connection-error)".to_string(),
            };
            if lib == "no-reply(connection-error)" {
                // the library gave up on the connection at this line
                ctx.finding(index, "reply-nonconformant", "line-aborts-handshake", names[k], desc.clone());
            } else {
                ctx.finding(index, "reply-nonconformant", &format!("{state:?}:{}", names[k]), &format!("expected={expected:?},lib={lib}"), desc.clone());
            }
            break;
        }
    }
    if o.replies.len() > model.steps.len() {
        ctx.finding(index, "reply-nonconformant", "extra-replies", &shape(model.lines_consumed), desc);
    }
}

pub fn run(ctx: &mut Ctx) {
    let t = templates();
    let cfgs: Vec<Cfg> = vec![
        Cfg { mech: Mech::External, uid: Some(UID), can_fd: true },
        Cfg { mech: Mech::External, uid: None, can_fd: true },
        Cfg { mech: Mech::Anonymous, uid: Some(UID), can_fd: false },
        Cfg { mech: Mech::Anonymous, uid: None, can_fd: true },
    ];
    // exhaustive sequences
    let max_len = if ctx.thorough() { 4 } else { 3 };
    let n = t.len() as u64;
    let mut g = 0u64;
    let mut total = 0u64;
    for len in 1..=max_len {
        let count = n.pow(len as u32);
        total += count * cfgs.len() as u64;
        for s in 0..count {
            for (ci, cfg) in cfgs.iter().enumerate() {
                g += 1;
                if !ctx.mine(g) || !ctx.want(g) {
                    continue;
                }
                let mut x = s;
                let mut idxs = vec![0usize; len];
                for j in (0..len).rev() {
                    idxs[j] = (x % n) as usize;
                    x /= n;
                }
                let names: Vec<&str> = idxs.iter().map(|i| t[*i].0).collect();
                let lines: Vec<Vec<u8>> = idxs.iter().map(|i| t[*i].1.clone()).collect();
                let mut rng = ctx.rng(g);
                // read splits: whole, per line, every byte (short sequences), random
                let total_len: usize = lines.iter().map(|l| l.len() + 2).sum::<usize>() + 1;
                let chunks: Vec<usize> = match (g + ci as u64) % 4 {
                    0 => vec![],
                    1 => vec![1],
                    2 => vec![1 + rng.usize_below(total_len)],
                    _ => (0..4).map(|_| 1 + rng.usize_below(7)).collect(),
                };
                let note = format!("seq {}", names.join(">"));
                ctx.guarded(g, &note, || json!({"lines": names, "cfg": format!("{cfg:?}")}), |ctx| {
                    check_case(ctx, g, &mut rng, cfg, &names, &lines, &chunks, None)
                });
            }
        }
    }
    if ctx.args.shard == 0 {
        ctx.count("exhaustive_sequences_total", total);
        ctx.count("exhaustive_max_len", max_len as u64);
    }
    // random longer sequences
    let m = ctx.budget(3000, 300_000);
    for j in 0..m {
        let i = 1_000_000_000 + j;
        if !ctx.want(i) {
            continue;
        }
        let mut rng = ctx.rng(i);
        let len = 4 + rng.usize_below(9);
        let idxs: Vec<usize> = (0..len).map(|_| rng.usize_below(t.len())).collect();
        let names: Vec<&str> = idxs.iter().map(|k| t[*k].0).collect();
        let lines: Vec<Vec<u8>> = idxs.iter().map(|k| t[*k].1.clone()).collect();
        let cfg = *rng.pick(&cfgs);
        let chunks: Vec<usize> = (0..rng.usize_below(5)).map(|_| 1 + rng.usize_below(12)).collect();
        let note = format!("rand {}", names.join(">"));
        ctx.guarded(i, &note, || json!({"lines": names}), |ctx| check_case(ctx, i, &mut rng, &cfg, &names, &lines, &chunks, None));
    }
    // malformed framing of the line protocol: must never panic, never authenticate
    if ctx.args.shard == 0 {
        let good = format!("\0AUTH EXTERNAL {}\r\nBEGIN\r\n", "31303030");
        let raws: Vec<(&str, Vec<u8>)> = vec![
            ("lf-first", b"\n".to_vec()),
            ("lf-only-lines", b"\0AUTH EXTERNAL 31303030\nBEGIN\n".to_vec()),
            ("missing-nul", good.as_bytes()[1..].to_vec()),
            ("crlf-first", b"\r\n".to_vec()),
            ("nul-then-lf", b"\0\n".to_vec()),
            ("empty", b"".to_vec()),
            ("only-nul", b"\0".to_vec()),
            ("cr-only", b"\0AUTH EXTERNAL 31303030\rBEGIN\r".to_vec()),
            ("double-nul", format!("\0{good}").into_bytes()),
            ("no-final-crlf", b"\0AUTH EXTERNAL 31303030\r\nBEGIN".to_vec()),
            ("huge-line", { let mut v = b"\0AUTH ".to_vec(); v.extend(std::iter::repeat(b'A').take(100_000)); v.extend_from_slice(b"\r\n"); v }),
        ];
        for (k, (name, raw)) in raws.into_iter().enumerate() {
            let idx = 9_000_000_000 + k as u64;
            if !ctx.want(idx) {
                continue;
            }
            let cfg = cfgs[0];
            let note = format!("raw {name}");
            ctx.guarded(idx, &note, || json!({"raw": name}), |ctx| {
                ctx.count("evaluations", 1);
                ctx.count("class:raw-framing", 1);
                let mut rng = Rng::new(idx);
                let o = run_server(&mut rng, &cfg, &raw, &[], true);
                // none of these is a well-formed successful conversation except where the NUL and CRLFs are right
                let authenticated = matches!(o.result, Some(Ok(_)));
                let proper = name == "no-final-crlf" && false;
                if authenticated && !proper {
                    ctx.finding(idx, "auth-unsound", "malformed-framing", name, json!({"raw": name}));
                }
                if o.result.is_none() {
                    ctx.finding(idx, "handshake-pending-at-quiescence", "malformed-framing", name, json!({"raw": name}));
                }
            });
        }
    }
}
