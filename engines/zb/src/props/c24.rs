//! C24 — the object server exposes exactly the registered interfaces.
//!
//! Histories of at/remove over a small tree; after each step the set of
//! (path, interface) pairs reachable by lookup, by method call over the wire
//! and by walking introspection from the root must equal the model's.

use crate::harness::peer::RawPeer;
use crate::harness::sched::Sched;
use crate::harness::util::*;
use crate::harness::wire::Wire;
use serde_json::json;
use std::collections::BTreeMap;
use vcommon::Ctx;
use vref::msg::*;
use vref::prng::{fnv, Rng};
use vref::val::Val;
use zbus::Connection;

pub struct IfA {
    pub tag: u32,
}
pub struct IfB {
    pub tag: u32,
}
pub struct IfC {
    pub tag: u32,
}

#[zbus::interface(name = "t.A")]
impl IfA {
    fn tag(&self) -> u32 {
        self.tag
    }
}
#[zbus::interface(name = "t.B")]
impl IfB {
    fn tag(&self) -> u32 {
        self.tag
    }
    #[zbus(property)]
    fn value(&self) -> u32 {
        self.tag
    }
}
#[zbus::interface(name = "t.C")]
impl IfC {
    async fn tag(&self) -> u32 {
        self.tag
    }
}

pub const PATHS: &[&str] = &["/", "/a", "/a/b", "/a/b/c", "/d"];
pub const IFACES: &[&str] = &["t.A", "t.B", "t.C"];

#[derive(Clone, Copy, Debug, PartialEq)]
pub enum Op {
    At(usize, usize),
    Remove(usize, usize),
}

impl Op {
    pub fn show(&self) -> String {
        match self {
            Op::At(p, i) => format!("at({}, {})", PATHS[*p], IFACES[*i]),
            Op::Remove(p, i) => format!("remove({}, {})", PATHS[*p], IFACES[*i]),
        }
    }
}

pub type Model = BTreeMap<(usize, usize), u32>;

/// Run `f` as a harness task to completion and return its value.
pub fn run_task<T: 'static>(sched: &mut Sched<'_>, f: impl std::future::Future<Output = T> + 'static) -> Option<T> {
    let out: Slot<T> = slot();
    let o2 = out.clone();
    let t = sched.spawn("op", async move {
        let v = f.await;
        *o2.borrow_mut() = Some(v);
    });
    sched.run_until_done(t);
    if !sched.is_done(t) {
        // do not keep what the unfinished future captured (connection handles) alive
        sched.cancel(t);
    }
    let v = out.borrow_mut().take();
    v
}

/// Apply one operation to the library; returns a description of the result.
pub fn apply(sched: &mut Sched<'_>, conn: &Connection, op: Op, tag: u32) -> Option<Result<bool, String>> {
    let conn = conn.clone();
    run_task(sched, async move {
        let os = conn.object_server();
        let r = match op {
            Op::At(p, 0) => os.at(PATHS[p], IfA { tag }).await,
            Op::At(p, 1) => os.at(PATHS[p], IfB { tag }).await,
            Op::At(p, _) => os.at(PATHS[p], IfC { tag }).await,
            Op::Remove(p, 0) => os.remove::<IfA, _>(PATHS[p]).await,
            Op::Remove(p, 1) => os.remove::<IfB, _>(PATHS[p]).await,
            Op::Remove(p, _) => os.remove::<IfC, _>(PATHS[p]).await,
        };
        r.map_err(|e| e.to_string())
    })
}

pub fn lookup_all(sched: &mut Sched<'_>, conn: &Connection) -> Option<Model> {
    let conn = conn.clone();
    run_task(sched, async move {
        let os = conn.object_server();
        let mut m = Model::new();
        for (p, path) in PATHS.iter().enumerate() {
            if let Ok(r) = os.interface::<_, IfA>(*path).await {
                m.insert((p, 0), r.get().await.tag);
            }
            if let Ok(r) = os.interface::<_, IfB>(*path).await {
                m.insert((p, 1), r.get().await.tag);
            }
            if let Ok(r) = os.interface::<_, IfC>(*path).await {
                m.insert((p, 2), r.get().await.tag);
            }
        }
        m
    })
}

/// Call `iface.Tag` at every (path, iface) over the wire.
pub fn call_all(sched: &mut Sched<'_>, peer: &mut RawPeer) -> Result<Model, String> {
    let mut serials: Vec<(u32, usize, usize)> = Vec::new();
    for (p, path) in PATHS.iter().enumerate() {
        for (i, iface) in IFACES.iter().enumerate() {
            let s = peer.serial();
            let m = Msg::method_call(s, path, Some(iface), "Tag");
            peer.send(&m, vec![], &[]);
            serials.push((s, p, i));
        }
    }
    if !sched.run_to_quiescence() {
        return Err("step bound".into());
    }
    let replies = peer.pump();
    let mut m = Model::new();
    for (s, p, i) in serials {
        let rs: Vec<_> = replies.iter().filter(|r| r.msg.reply_serial() == Some(s)).collect();
        if rs.len() != 1 {
            return Err(format!("{} replies for the call to {} {}", rs.len(), PATHS[p], IFACES[i]));
        }
        let r = rs[0];
        match r.msg.mtype {
            METHOD_RETURN => match r.msg.body.first() {
                Some(Val::U(t)) => {
                    m.insert((p, i), *t);
                }
                other => return Err(format!("unexpected return body {other:?}")),
            },
            ERROR => {
                let n = r.msg.error_name().unwrap_or("");
                if !(n == "org.freedesktop.DBus.Error.UnknownObject" || n == "org.freedesktop.DBus.Error.UnknownInterface" || n == "org.freedesktop.DBus.Error.UnknownMethod") {
                    return Err(format!("unexpected error {n} for {} {}", PATHS[p], IFACES[i]));
                }
            }
            _ => return Err("unexpected message type".into()),
        }
    }
    Ok(m)
}

/// Walk introspection from the root; returns the (path, iface) pairs found and whether every document parsed.
pub fn introspect_all(sched: &mut Sched<'_>, peer: &mut RawPeer) -> Result<Vec<(String, String)>, String> {
    let mut found = Vec::new();
    let mut todo = vec!["/".to_string()];
    let mut visited = 0;
    while let Some(path) = todo.pop() {
        visited += 1;
        if visited > 50 {
            return Err("introspection walk does not terminate".into());
        }
        let s = peer.serial();
        peer.send(&Msg::method_call(s, &path, Some("org.freedesktop.DBus.Introspectable"), "Introspect"), vec![], &[]);
        if !sched.run_to_quiescence() {
            return Err("step bound".into());
        }
        let replies = peer.pump();
        let r = replies.iter().find(|r| r.msg.reply_serial() == Some(s)).ok_or("no reply to Introspect")?;
        if r.msg.mtype != METHOD_RETURN {
            return Err(format!("Introspect at {path} failed: {:?}", r.msg.error_name()));
        }
        let xml = match r.msg.body.first() {
            Some(Val::S(x)) => x.clone(),
            _ => return Err("Introspect did not return a string".into()),
        };
        let node = zbus_xml::Node::try_from(xml.as_str()).map_err(|e| format!("introspection XML at {path} not readable: {e}"))?;
        for i in node.interfaces() {
            found.push((path.clone(), i.name().to_string()));
        }
        for c in node.nodes() {
            let name = c.name().unwrap_or("");
            if name.is_empty() || name.contains('/') {
                return Err(format!("child node name {name:?} at {path}"));
            }
            todo.push(if path == "/" { format!("/{name}") } else { format!("{path}/{name}") });
        }
    }
    Ok(found)
}

pub fn model_apply(m: &mut Model, op: Op, tag: u32) -> Result<bool, ()> {
    match op {
        Op::At(p, i) => {
            if m.contains_key(&(p, i)) {
                Ok(false)
            } else {
                m.insert((p, i), tag);
                Ok(true)
            }
        }
        Op::Remove(p, i) => {
            if m.remove(&(p, i)).is_some() {
                Ok(true)
            } else {
                Err(())
            }
        }
    }
}

fn show_model(m: &Model) -> Vec<String> {
    m.iter().map(|((p, i), t)| format!("{} {} #{t}", PATHS[*p], IFACES[*i])).collect()
}

/// Run one history. `wire_every`: check the wire + introspection views every n steps (0 = never).
fn history(ctx: &mut Ctx, index: u64, ops: &[Op], rng: &mut Rng, wire_every: usize) {
    ctx.count("evaluations", 1);
    let wire = Wire::new(rng.next_u64());
    let mut sched = Sched::new(Rng::new(rng.next_u64()));
    let conn = match connect_authenticated(&mut sched, &wire) {
        Ok(c) => c,
        Err(e) => {
            ctx.finding(index, "harness-or-hang", "-", "connect", json!({"error": e}));
            return;
        }
    };
    let w2 = wire.clone();
    sched.add_net(Box::new(move || w2.release_one()));
    let mut peer = RawPeer::new(&wire);
    let mut model = Model::new();
    let shown: Vec<String> = ops.iter().map(|o| o.show()).collect();
    for (k, op) in ops.iter().enumerate() {
        let tag = 100 + k as u32;
        let want = model_apply(&mut model, *op, tag);
        let got = apply(&mut sched, &conn, *op, tag);
        // Let background tasks settle (the lazily started dispatch task subscribing is C30's
        // subject, not this property's).
        sched.run_to_quiescence();
        let detail = |x: serde_json::Value| json!({"history": shown, "step": k, "op": op.show(), "model": show_model(&model), "info": x});
        let got = match got {
            Some(g) => g,
            None => {
                ctx.finding(index, "operation-did-not-complete", &op.show().split('(').next().unwrap_or("").to_string(), "-", detail(json!({})));
                return;
            }
        };
        match (op, &want, &got) {
            (Op::At(..), Ok(true), Ok(true)) => {}
            (Op::At(..), Ok(true), other) => ctx.finding(index, "registration-refused", "-", "-", detail(json!({"result": format!("{other:?}")}))),
            (Op::At(..), Ok(false), Ok(true)) => ctx.finding(index, "duplicate-registration-accepted", "-", "-", detail(json!({}))),
            (Op::At(..), _, _) => {}
            (Op::Remove(..), Ok(_), Ok(_)) => {}
            (Op::Remove(..), Ok(_), Err(e)) => ctx.finding(index, "removal-of-present-interface-failed", "-", "-", detail(json!({"error": e}))),
            (Op::Remove(..), Err(()), Ok(_)) => ctx.finding(index, "removal-of-absent-interface-succeeded", "-", "-", detail(json!({}))),
            (Op::Remove(..), Err(()), Err(_)) => {}
        }
        // view 1: lookup
        match lookup_all(&mut sched, &conn) {
            Some(l) if l == model => {}
            Some(l) => {
                let missing: Vec<_> = model.keys().filter(|k| !l.contains_key(k)).collect();
                let reason = if !missing.is_empty() { "registered-pair-missing" } else if l.len() > model.len() { "unregistered-pair-present" } else { "wrong-instance" };
                ctx.finding(index, "lookup-view-differs", reason, &format!("after-{}", op.show().split('(').next().unwrap_or("")), detail(json!({"lookup": show_model(&l)})));
                return;
            }
            None => {
                ctx.finding(index, "lookup-did-not-complete", "-", "-", detail(json!({})));
                return;
            }
        }
        if wire_every > 0 && (k + 1) % wire_every == 0 {
            ctx.count("wire_view_checks", 1);
            match call_all(&mut sched, &mut peer) {
                Ok(c) if c == model => {}
                Ok(c) => {
                    ctx.finding(index, "call-view-differs", "-", "-", detail(json!({"callable": show_model(&c)})));
                    return;
                }
                Err(e) => {
                    ctx.finding(index, "call-view-error", "-", "-", detail(json!({"error": e})));
                    return;
                }
            }
            match introspect_all(&mut sched, &mut peer) {
                Ok(found) => {
                    let mut user: Vec<(String, String)> = found.into_iter().filter(|(_, i)| IFACES.contains(&i.as_str())).collect();
                    user.sort();
                    let mut want: Vec<(String, String)> = model.keys().map(|(p, i)| (PATHS[*p].to_string(), IFACES[*i].to_string())).collect();
                    want.sort();
                    if user != want {
                        ctx.finding(index, "introspection-view-differs", "-", "-", detail(json!({"introspected": user})));
                        return;
                    }
                }
                Err(e) => {
                    ctx.finding(index, "introspection-view-error", "-", "-", detail(json!({"error": e})));
                    return;
                }
            }
        }
    }
    ctx.distinct(fnv(&shown.join(";")));
    if !peer.parse_errors.is_empty() {
        ctx.finding(index, "peer-could-not-parse-zbus-output", "-", "-", json!({"errors": peer.parse_errors}));
    }
}

pub fn all_ops() -> Vec<Op> {
    let mut v = Vec::new();
    for p in 0..PATHS.len() {
        for i in 0..IFACES.len() {
            v.push(Op::At(p, i));
            v.push(Op::Remove(p, i));
        }
    }
    v
}

pub fn run(ctx: &mut Ctx) {
    let ops = all_ops();
    let n = ops.len() as u64;
    // exhaustive short histories (lookup view after every step)
    let max_len = if ctx.thorough() { 3 } else { 2 };
    let mut g = 0u64;
    let mut total = 0u64;
    for len in 1..=max_len {
        let count = n.pow(len as u32);
        total += count;
        for s in 0..count {
            g += 1;
            if !ctx.mine(g) || !ctx.want(g) {
                continue;
            }
            let mut x = s;
            let mut h = Vec::new();
            for _ in 0..len {
                h.push(ops[(x % n) as usize]);
                x /= n;
            }
            h.reverse();
            let mut rng = ctx.rng(g);
            let note = format!("short {}", h.iter().map(|o| o.show()).collect::<Vec<_>>().join(";"));
            ctx.guarded(g, &note, || json!({}), |ctx| history(ctx, g, &h, &mut rng, if len == max_len { len } else { 0 }));
            ctx.count("class:exhaustive-history", 1);
        }
    }
    if ctx.args.shard == 0 {
        ctx.count("exhaustive_histories_total", total);
        ctx.count("exhaustive_max_len", max_len as u64);
    }
    // random long histories with the wire and introspection views every 5 steps
    let m = ctx.budget(400, 20_000);
    for j in 0..m {
        let i = 1_000_000_000 + j;
        if !ctx.want(i) {
            continue;
        }
        let mut rng = ctx.rng(i);
        let len = 30 + rng.usize_below(if ctx.thorough() { 170 } else { 40 });
        // bias towards a populated tree: 60% at
        let h: Vec<Op> = (0..len)
            .map(|_| {
                let p = rng.usize_below(PATHS.len());
                let k = rng.usize_below(IFACES.len());
                if rng.chance(3, 5) {
                    Op::At(p, k)
                } else {
                    Op::Remove(p, k)
                }
            })
            .collect();
        ctx.guarded(i, "long-history", || json!({"len": len}), |ctx| history(ctx, i, &h, &mut rng, 5));
        ctx.count("class:long-history", 1);
        if j < 2 {
            ctx.sample(json!({"history": h.iter().take(12).map(|o| o.show()).collect::<Vec<_>>()}));
        }
    }
}
