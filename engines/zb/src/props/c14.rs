//! C14 — the byte stream is framed into exactly the messages that were sent,
//! however the stream is split across reads; fds stay with their message;
//! receive positions increase; oversize declarations are refused unread.

use crate::harness::sched::Sched;
use crate::harness::util::*;
use crate::harness::wire::{dev_ino, Wire};
use crate::msggen::*;
use futures_lite::StreamExt;
use serde_json::json;
use std::cell::RefCell;
use std::os::fd::{AsFd, OwnedFd};
use std::rc::Rc;
use vcommon::alloc;
use vcommon::Ctx;
use vref::msg::*;
use vref::prng::{fnv, Rng};
use vref::val::Val;
use zbus::MessageStream;

pub struct Sent {
    pub bytes: Vec<u8>,
    pub fd_ids: Vec<(u64, u64)>,
}

#[derive(Debug)]
pub struct Got {
    pub bytes: Vec<u8>,
    pub fd_ids: Vec<(u64, u64)>,
    pub pos: u64,
}

/// Distinct files used as fds (identity = (dev, ino)).
pub fn fd_files() -> Vec<OwnedFd> {
    // (not /dev/tty: it only opens when the process has a controlling terminal, and the ENXIO it returns otherwise is
    // an I/O error Miri cannot represent, which aborted the Miri layer when the check ran without a terminal)
    ["/dev/null", "/dev/zero", "/dev/full", "/dev/urandom", "/dev/random"]
        .iter()
        .filter_map(|p| std::fs::File::open(p).ok())
        .map(OwnedFd::from)
        .collect()
}

/// Generate a message whose body mentions `nfds` fds (indices 0..nfds).
pub fn gen_stream_msg(rng: &mut Rng, nfds: usize, size_class: u64) -> Msg {
    let mut m = gen_msg(rng, &MsgOpts { allow_fd: false, max_body_args: 2, big: false });
    let mut body: Vec<Val> = m.body.clone();
    match size_class {
        0 => body.clear(),
        1 => {}
        2 => body.push(Val::S("x".repeat(200 + rng.usize_below(2000)))),
        _ => body.push(Val::A(vref::sig::Sig::Y, (0..(20_000 + rng.usize_below(50_000))).map(|i| Val::Y(i as u8)).collect())),
    }
    for i in 0..nfds {
        body.push(Val::H(i as u32));
    }
    m.body = body;
    m
}

/// Stage `msgs` on the wire as one stream cut at `cuts` (absolute offsets),
/// always cutting before a message that carries fds (as the kernel does).
pub fn stage_stream(wire: &Wire, msgs: &[(Vec<u8>, Vec<OwnedFd>)], cuts: &[usize]) {
    let mut offset = 0usize;
    let mut cuts: Vec<usize> = cuts.to_vec();
    cuts.sort();
    cuts.dedup();
    for (bytes, fds) in msgs {
        // cut points that fall inside this message
        let mut pieces: Vec<usize> = Vec::new();
        let mut last = 0;
        for c in cuts.iter().filter(|c| **c > offset && **c < offset + bytes.len()) {
            pieces.push(c - offset - last);
            last = c - offset;
        }
        pieces.push(bytes.len() - last);
        let has_fds = !fds.is_empty();
        let boundary_cut = cuts.contains(&offset) || has_fds || offset == 0;
        // if there is no cut at the boundary, merge the first piece into the previous chunk
        let mut w = wire.lock();
        let mut pos = 0;
        let mut fds_opt = Some(fds.iter().map(|f| f.as_fd().try_clone_to_owned().unwrap()).collect::<Vec<_>>());
        for (k, p) in pieces.iter().enumerate() {
            let chunk = bytes[pos..pos + p].to_vec();
            pos += p;
            if k == 0 && !boundary_cut {
                if let Some(prev) = w.staged.back_mut() {
                    prev.bytes.extend_from_slice(&chunk);
                    continue;
                }
            }
            w.staged.push_back(crate::harness::wire::Chunk { bytes: chunk, fds: if k == 0 { fds_opt.take().unwrap_or_default() } else { vec![] }, fd_offset: 0 });
        }
        drop(w);
        offset += bytes.len();
    }
}

/// Run one framing case; returns (received items, stream-ended-with-error?, schedule fingerprint, notes).
pub fn run_case(seed_rng: &mut Rng, sent: &[(Vec<u8>, Vec<OwnedFd>)], cuts: &[usize], bias: (u64, u64, u64)) -> Result<(Vec<Got>, Option<String>, u64, String), String> {
    let wire = Wire::new(seed_rng.next_u64());
    let mut sched = Sched::new(Rng::new(seed_rng.next_u64()));
    sched.w_ex = bias.0;
    sched.w_h = bias.1;
    sched.w_net = bias.2;
    let conn = connect_authenticated(&mut sched, &wire)?;
    let got: Rc<RefCell<Vec<Got>>> = Rc::new(RefCell::new(Vec::new()));
    let end: Rc<RefCell<Option<String>>> = Rc::new(RefCell::new(None));
    let mut stream = MessageStream::from(&conn);
    let (g2, e2) = (got.clone(), end.clone());
    sched.spawn("consumer", async move {
        loop {
            match stream.next().await {
                Some(Ok(m)) => {
                    let d = m.data();
                    g2.borrow_mut().push(Got {
                        bytes: d.bytes().to_vec(),
                        fd_ids: d.fds().iter().map(|f| dev_ino(f.as_fd())).collect(),
                        pos: seq_of(&m),
                    });
                }
                Some(Err(e)) => {
                    *e2.borrow_mut() = Some(e.to_string());
                    break;
                }
                None => {
                    *e2.borrow_mut() = Some("<end of stream>".into());
                    break;
                }
            }
        }
    });
    stage_stream(&wire, sent, cuts);
    wire.lock().eof_at_end = true;
    let w2 = wire.clone();
    sched.add_net(Box::new(move || w2.release_one()));
    // long streams cut into tiny chunks legitimately need more than the default step bound
    let w3 = wire.clone();
    let quiescent = sched.run_to_quiescence_while(move || w3.io_progress());
    let fp = sched.fingerprint();
    let notes = format!("steps={} ex={} net={} recv_calls={} trace={}", sched.steps, sched.ex_ticks, sched.net_events, wire.lock().recv_calls, sched.trace_string());
    drop(sched);
    drop(conn);
    if !quiescent {
        return Err(format!("step bound hit: {notes}"));
    }
    let g = std::mem::take(&mut *got.borrow_mut());
    let e = end.borrow_mut().take();
    Ok((g, e, fp, notes))
}

/// Like `run_case`, but the connection performs the real client handshake and the read that carries the last handshake
/// line also carries the first `leftover` bytes of the message stream (the hand-off from the handshake buffer to the
/// socket reader); the rest of the stream is cut at `cuts` (absolute stream offsets).
pub fn run_leftover_case(seed_rng: &mut Rng, sent: &[(Vec<u8>, Vec<OwnedFd>)], leftover: usize, cuts: &[usize], bias: (u64, u64, u64), handshake_chunks: &[usize]) -> Result<(Vec<Got>, Option<String>, u64, String), String> {
    let wire = Wire::new(seed_rng.next_u64());
    let mut sched = Sched::new(Rng::new(seed_rng.next_u64()));
    sched.w_ex = bias.0;
    sched.w_h = bias.1;
    sched.w_net = bias.2;
    let hs = format!("OK {GUID}\r\nAGREE_UNIX_FD\r\n").into_bytes();
    wire.stage(&hs, vec![], handshake_chunks);
    // the whole stream as one byte string with the fds of each message at its first byte
    let mut stream: Vec<u8> = Vec::new();
    let mut fd_at: Vec<(usize, Vec<OwnedFd>)> = Vec::new();
    for (b, f) in sent {
        if !f.is_empty() {
            fd_at.push((stream.len(), f.iter().map(|x| x.as_fd().try_clone_to_owned().unwrap()).collect()));
        }
        stream.extend_from_slice(b);
    }
    let mut cuts: Vec<usize> = cuts.iter().copied().filter(|c| *c > leftover && *c < stream.len()).collect();
    // as the kernel does, a read never continues past a message that carried fds, and one read carries one fd group
    let mut bounds: Vec<usize> = Vec::new();
    let mut off = 0;
    for (b, f) in sent {
        if !f.is_empty() {
            bounds.push(off);
            bounds.push(off + b.len());
        }
        off += b.len();
    }
    // the leftover itself may not run past the end of the first fd-carrying message it touches
    let mut leftover = leftover.min(stream.len());
    for w in bounds.chunks(2) {
        if leftover > w[1] && leftover > w[0] {
            leftover = w[1];
            break;
        }
    }
    for b in &bounds {
        if *b > leftover && *b < stream.len() {
            cuts.push(*b);
        }
    }
    cuts.sort();
    cuts.dedup();
    {
        let mut w = wire.lock();
        // the last handshake chunk also carries the first `leftover` stream bytes
        let idx_leftover = w.staged.len() - 1;
        let hs_len = w.staged[idx_leftover].bytes.len();
        w.staged[idx_leftover].bytes.extend_from_slice(&stream[..leftover]);
        // (stream offset at which the chunk's stream bytes start, offset of those bytes inside the chunk, chunk index)
        let mut chunk_starts: Vec<(usize, usize, usize)> = vec![(0, hs_len, idx_leftover)];
        let mut start = leftover;
        for c in cuts.iter().chain(std::iter::once(&stream.len())) {
            if *c > start {
                w.staged.push_back(crate::harness::wire::Chunk { bytes: stream[start..*c].to_vec(), fds: vec![], fd_offset: 0 });
                chunk_starts.push((start, 0, w.staged.len() - 1));
                start = *c;
            }
        }
        // attach each fd group to the chunk that contains its message's first byte
        for (at, fds) in fd_at {
            let mut target = chunk_starts[0];
            for cs in &chunk_starts {
                if cs.0 <= at && (cs.2 != idx_leftover || at < leftover) {
                    target = *cs;
                }
            }
            let c = &mut w.staged[target.2];
            if !c.fds.is_empty() {
                return Err("harness: two fd groups in one read".into());
            }
            c.fd_offset = target.1 + (at - target.0);
            c.fds = fds;
        }
        w.eof_at_end = true;
    }
    let out: Slot<Result<zbus::Connection, String>> = slot();
    let o2 = out.clone();
    let sock = wire.socket();
    let build = sched.spawn("client-build", async move {
        let r = zbus::connection::Builder::socket(sock).p2p().internal_executor(false).build().await;
        *o2.borrow_mut() = Some(r.map_err(|e| e.to_string()));
    });
    let w2 = wire.clone();
    sched.add_net(Box::new(move || w2.release_one()));
    let w3 = wire.clone();
    sched.add_net(Box::new(move || w3.unblock_write()));
    sched.run_until_done(build);
    let conn = match out.borrow_mut().take() {
        Some(Ok(c)) => c,
        Some(Err(e)) => return Err(format!("handshake failed: {e}")),
        None => return Err("handshake pending at quiescence".into()),
    };
    // subscribe before any further scheduling so that leftover messages have a receiver
    let got: Rc<RefCell<Vec<Got>>> = Rc::new(RefCell::new(Vec::new()));
    let end: Rc<RefCell<Option<String>>> = Rc::new(RefCell::new(None));
    let mut mstream = MessageStream::from(&conn);
    sched.add_executor(conn.executor().clone());
    let (g2, e2) = (got.clone(), end.clone());
    sched.spawn("consumer", async move {
        loop {
            match mstream.next().await {
                Some(Ok(m)) => {
                    let d = m.data();
                    g2.borrow_mut().push(Got { bytes: d.bytes().to_vec(), fd_ids: d.fds().iter().map(|f| dev_ino(f.as_fd())).collect(), pos: seq_of(&m) });
                }
                Some(Err(e)) => {
                    *e2.borrow_mut() = Some(e.to_string());
                    break;
                }
                None => {
                    *e2.borrow_mut() = Some("<end of stream>".into());
                    break;
                }
            }
        }
    });
    let w4 = wire.clone();
    let quiescent = sched.run_to_quiescence_while(move || w4.io_progress());
    let fp = sched.fingerprint();
    let notes = format!("leftover={leftover} steps={} recv_calls={} trace={}", sched.steps, wire.lock().recv_calls, sched.trace_string());
    drop(sched);
    drop(conn);
    if !quiescent {
        return Err(format!("step bound hit: {notes}"));
    }
    let g = std::mem::take(&mut *got.borrow_mut());
    let e = end.borrow_mut().take();
    Ok((g, e, fp, notes))
}

/// Class E: the same comparison over a REAL socketpair (the library's libc recvmsg path with ancillary data, its own
/// executor thread): a raw peer thread answers the client handshake, then writes the stream with `sendmsg` in random
/// pieces, each message's fds travelling with its first byte (SCM_RIGHTS), and shuts the socket down.
pub fn run_real_socket_case(rng: &mut Rng, sent: &[(Vec<u8>, Vec<OwnedFd>)]) -> Result<(Vec<Got>, Option<String>), String> {
    use crate::harness::realsock::*;
    use std::os::fd::AsRawFd;
    use std::os::unix::net::UnixStream;
    let (a, mut b) = UnixStream::pair().map_err(|e| e.to_string())?;
    let pieces: Vec<(Vec<u8>, Vec<OwnedFd>)> = sent.iter().map(|(x, f)| (x.clone(), f.iter().map(|y| y.as_fd().try_clone_to_owned().unwrap()).collect())).collect();
    let mut prng = Rng::new(rng.next_u64());
    let (go_tx, go_rx) = std::sync::mpsc::channel::<()>();
    let peer = std::thread::spawn(move || -> Result<(), String> {
        raw_server_handshake(&mut b, true).map_err(|e| format!("handshake: {e}"))?;
        go_rx.recv_timeout(std::time::Duration::from_secs(60)).map_err(|_| "no go".to_string())?;
        for (bytes, fds) in pieces {
            let raw: Vec<i32> = fds.iter().map(|f| f.as_raw_fd()).collect();
            let mut pos = 0;
            let mut first = true;
            while pos < bytes.len() {
                let n = match prng.below(4) {
                    0 => 1,
                    1 => 1 + prng.usize_below(16),
                    2 => 1 + prng.usize_below(300),
                    _ => bytes.len() - pos,
                }
                .min(bytes.len() - pos);
                let k = send_with_fds(b.as_raw_fd(), &bytes[pos..pos + n], if first { &raw } else { &[] }).map_err(|e| format!("sendmsg: {e}"))?;
                first = false;
                pos += k;
                if prng.chance(1, 8) {
                    std::thread::yield_now();
                }
            }
        }
        let _ = b.shutdown(std::net::Shutdown::Write);
        // keep the socket open until the other side is done reading
        std::thread::sleep(std::time::Duration::from_millis(5));
        Ok(())
    });
    let conn = zbus::block_on(zbus::connection::Builder::unix_stream(a).p2p().build()).map_err(|e| format!("client handshake over the socketpair failed: {e}"))?;
    let mut stream = MessageStream::from(&conn);
    let _ = go_tx.send(());
    let mut got = Vec::new();
    let mut end = None;
    let deadline = std::time::Instant::now() + std::time::Duration::from_secs(120);
    loop {
        let next = zbus::block_on(async {
            futures_lite::future::or(async { Some(stream.next().await) }, async {
                async_io_timer(std::time::Duration::from_secs(120)).await;
                None
            })
            .await
        });
        match next {
            Some(Some(Ok(m))) => {
                let d = m.data();
                got.push(Got { bytes: d.bytes().to_vec(), fd_ids: d.fds().iter().map(|f| dev_ino(f.as_fd())).collect(), pos: seq_of(&m) });
            }
            Some(Some(Err(e))) => {
                end = Some(e.to_string());
                break;
            }
            Some(None) => {
                end = Some("<end of stream>".into());
                break;
            }
            None => return Err("wall-clock guard (120 s) fired while reading".into()),
        }
        if std::time::Instant::now() > deadline {
            return Err("wall-clock guard (120 s) fired while reading".into());
        }
    }
    match peer.join() {
        Ok(Ok(())) => {}
        Ok(Err(e)) => return Err(format!("raw peer: {e}")),
        Err(_) => return Err("raw peer panicked".into()),
    }
    Ok((got, end))
}

/// A timer that works without the async-io reactor dependency in this crate: a helper thread completes a channel.
async fn async_io_timer(d: std::time::Duration) {
    let (tx, rx) = std::sync::mpsc::channel::<()>();
    let waker_slot: std::sync::Arc<std::sync::Mutex<Option<std::task::Waker>>> = Default::default();
    let w2 = waker_slot.clone();
    std::thread::spawn(move || {
        std::thread::sleep(d);
        let _ = tx.send(());
        if let Some(w) = w2.lock().unwrap().take() {
            w.wake();
        }
    });
    std::future::poll_fn(move |cx| {
        if rx.try_recv().is_ok() {
            return std::task::Poll::Ready(());
        }
        *waker_slot.lock().unwrap() = Some(cx.waker().clone());
        std::task::Poll::Pending
    })
    .await
}

/// Receive position as an ordered integer (Sequence is opaque but ordered; use Debug digits).
fn seq_of(m: &zbus::Message) -> u64 {
    let s = format!("{:?}", m.recv_position());
    let digits: String = s.chars().filter(|c| c.is_ascii_digit()).collect();
    digits.parse().unwrap_or(0)
}

pub fn compare(ctx: &mut Ctx, index: u64, sent: &[Sent], got: &[Got], end: &Option<String>, loc: &str, detail: serde_json::Value) {
    if got.len() != sent.len() {
        ctx.finding(index, "message-count-differs", if got.len() < sent.len() { "fewer" } else { "more" }, loc,
            json!({"sent": sent.len(), "received": got.len(), "stream_end": end, "case": detail}));
        return;
    }
    for (k, (s, g)) in sent.iter().zip(got.iter()).enumerate() {
        if s.bytes != g.bytes {
            ctx.finding(index, "message-bytes-differ", "-", loc, json!({"message": k, "sent_len": s.bytes.len(), "received_len": g.bytes.len(), "case": detail}));
            return;
        }
        if s.fd_ids != g.fd_ids {
            ctx.finding(index, "message-fds-differ", "-", loc, json!({"message": k, "sent_fds": format!("{:?}", s.fd_ids), "received_fds": format!("{:?}", g.fd_ids), "case": detail}));
            return;
        }
        if k > 0 && g.pos <= got[k - 1].pos {
            ctx.finding(index, "recv-position-not-increasing", "-", loc, json!({"message": k, "pos": g.pos, "previous": got[k - 1].pos, "case": detail}));
            return;
        }
    }
    if end.is_none() {
        ctx.finding(index, "stream-did-not-end-after-eof", "-", loc, json!({"case": detail}));
    }
}

pub fn run(ctx: &mut Ctx) {
    let files = fd_files();
    // `--x-only real-socket`: only class E (the valgrind layer, which is ~25x slower, runs just the libc socket path)
    let only_real = ctx.args.extra.get("only").map(|s| s == "real-socket").unwrap_or(false);
    // (A) exhaustive single and double cuts of short streams
    let mut k_global = 0u64;
    if !only_real {
        let mut rng = Rng::new(0xC14);
        let m1 = Msg::signal(1, "/a", "a.b", "S").marshal();
        let m2 = Msg::method_return(2, 9).with_body(vec![Val::Y(7)]).marshal();
        let m3 = Msg::signal(3, "/", "x.y", "T").with_body(vec![Val::H(0)]).marshal();
        let total = m1.len() + m2.len() + m3.len();
        let mut cutsets: Vec<Vec<usize>> = vec![vec![]];
        for a in 1..total {
            cutsets.push(vec![a]);
        }
        let pair_limit = if ctx.thorough() { total } else { 100.min(total) };
        for a in 1..pair_limit {
            for b in (a + 1)..pair_limit {
                cutsets.push(vec![a, b]);
            }
        }
        // one byte at a time
        cutsets.push((1..total).collect());
        ctx.count("exhaustive_cutsets_total", if ctx.args.shard == 0 { cutsets.len() as u64 } else { 0 });
        for cuts in cutsets {
            k_global += 1;
            if !ctx.mine(k_global) || !ctx.want(k_global) {
                continue;
            }
            let sent_raw: Vec<(Vec<u8>, Vec<OwnedFd>)> = vec![
                (m1.clone(), vec![]),
                (m2.clone(), vec![]),
                (m3.clone(), vec![files[0].as_fd().try_clone_to_owned().unwrap()]),
            ];
            let sent: Vec<Sent> = sent_raw.iter().map(|(b, f)| Sent { bytes: b.clone(), fd_ids: f.iter().map(|x| dev_ino(x.as_fd())).collect() }).collect();
            let note = format!("cuts {:?}", &cuts[..cuts.len().min(4)]);
            let cuts2 = cuts.clone();
            let mut r2 = Rng::new(rng.next_u64());
            ctx.guarded(k_global, &note, || json!({"cuts": cuts2.len()}), |ctx| {
                ctx.count("evaluations", 1);
                ctx.count("class:exhaustive-cuts", 1);
                match run_case(&mut r2, &sent_raw, &cuts, (4, 3, 2)) {
                    Ok((got, end, fp, notes)) => {
                        ctx.distinct(fp);
                        compare(ctx, k_global, &sent, &got, &end, "short-stream", json!({"cuts": cuts, "notes": notes}));
                    }
                    Err(e) => ctx.finding(k_global, "harness-or-hang", "-", "short-stream", json!({"error": e, "cuts": cuts})),
                }
            });
        }
    }
    // (B) random streams with random chunk plans and scheduler biases
    let n = if only_real { 0 } else { ctx.budget(1500, 60_000) };
    for j in 0..n {
        let i = 1_000_000 + j;
        if !ctx.want(i) {
            continue;
        }
        let mut rng = ctx.rng(i);
        let nm = 1 + rng.usize_below(12);
        let mut sent_raw: Vec<(Vec<u8>, Vec<OwnedFd>)> = Vec::new();
        let mut total = 0usize;
        for _ in 0..nm {
            let nf = if rng.chance(1, 4) { 1 + rng.usize_below(3) } else { 0 };
            let size_class = match rng.below(20) {
                0 => 3,
                1..=3 => 2,
                4..=8 => 0,
                _ => 1,
            };
            let m = gen_stream_msg(&mut rng, nf, size_class);
            let bytes = m.marshal();
            total += bytes.len();
            let fds: Vec<OwnedFd> = (0..nf).map(|_| rng.pick(&files).as_fd().try_clone_to_owned().unwrap()).collect();
            sent_raw.push((bytes, fds));
        }
        let plan = rng.below(5);
        let mut cuts: Vec<usize> = Vec::new();
        match plan {
            0 => {}
            1 => {
                if total < 3000 {
                    cuts = (1..total).collect();
                } else {
                    cuts = (1..total).step_by(257).collect();
                }
            }
            2 => {
                let sz = *rng.pick(&[2usize, 3, 7, 16, 17, 4096]);
                cuts = (1..total).filter(|x| x % sz == 0).collect();
            }
            _ => {
                let nc = rng.usize_below(40);
                for _ in 0..nc {
                    cuts.push(1 + rng.usize_below(total.max(2) - 1));
                }
                // and some cuts clustered around message boundaries / the 16-byte header
                let mut off = 0;
                for (b, _) in &sent_raw {
                    for d in [1usize, 8, 15, 16, 17] {
                        if rng.chance(1, 3) && off + d < total {
                            cuts.push(off + d);
                        }
                    }
                    off += b.len();
                    if rng.chance(1, 2) && off < total {
                        cuts.push(off);
                    }
                }
            }
        }
        cuts.sort();
        cuts.dedup();
        if ctx.args.layer == "miri" && cuts.len() > 1500 {
            // the interpreter is ~10^4 times slower: tens of thousands of 2-byte reads take the better part of an hour
            // there; keep every k-th cut (the monitor layers run the dense plans)
            let k = cuts.len() / 1500 + 1;
            cuts = cuts.into_iter().step_by(k).collect();
        }
        let bias = *rng.pick(&[(4u64, 3u64, 2u64), (1, 1, 8), (8, 1, 1), (1, 8, 1), (2, 2, 2)]);
        let sent: Vec<Sent> = sent_raw.iter().map(|(b, f)| Sent { bytes: b.clone(), fd_ids: f.iter().map(|x| dev_ino(x.as_fd())).collect() }).collect();
        let note = format!("stream n={nm} bytes={total} plan={plan}");
        ctx.guarded(i, &note, || json!({"messages": nm, "bytes": total, "plan": plan}), |ctx| {
            ctx.count("evaluations", 1);
            ctx.count(&format!("class:plan-{plan}"), 1);
            ctx.count("messages_sent", nm as u64);
            match run_case(&mut rng, &sent_raw, &cuts, bias) {
                Ok((got, end, fp, notes)) => {
                    ctx.distinct(fp);
                    ctx.count("messages_received", got.len() as u64);
                    compare(ctx, i, &sent, &got, &end, "random-stream", json!({"messages": nm, "bytes": total, "plan": plan, "cuts": cuts.len(), "notes": notes}));
                }
                Err(e) => ctx.finding(i, "harness-or-hang", "-", "random-stream", json!({"error": e})),
            }
        });
        if j < 2 {
            ctx.sample(json!({"messages": nm, "bytes": total, "plan": plan, "cuts": cuts.len(), "first_message": vref::hex(&sent_raw[0].0[..sent_raw[0].0.len().min(64)])}));
        }
    }
    // (D) hand-off from the handshake: EVERY leftover length 0..=len(m1)+len(m2)+20 of a 3-message stream (the third
    // carries an fd), the handshake lines themselves whole / byte-wise / randomly chunked; plus random streams
    {
        let m1 = Msg::signal(1, "/a", "a.b", "S").marshal();
        let m2 = Msg::method_return(2, 9).with_body(vec![Val::Y(7)]).marshal();
        let m3 = Msg::signal(3, "/", "x.y", "T").with_body(vec![Val::H(0)]).marshal();
        let max_l = m1.len() + m2.len() + 20;
        let mut kd = 0u64;
        for l in 0..=(if only_real { 0 } else { max_l }) {
            if only_real {
                break;
            }
            for variant in 0..3u64 {
                kd += 1;
                let idx = 5_000_000_000 + kd;
                if !ctx.mine(kd) || !ctx.want(idx) {
                    continue;
                }
                let sent_raw: Vec<(Vec<u8>, Vec<OwnedFd>)> = vec![(m1.clone(), vec![]), (m2.clone(), vec![]), (m3.clone(), vec![files[0].as_fd().try_clone_to_owned().unwrap()])];
                let sent: Vec<Sent> = sent_raw.iter().map(|(b, f)| Sent { bytes: b.clone(), fd_ids: f.iter().map(|x| dev_ino(x.as_fd())).collect() }).collect();
                let mut rng = ctx.rng(idx);
                let hs_chunks: Vec<usize> = match variant {
                    0 => vec![],
                    1 => vec![1],
                    _ => vec![1 + rng.usize_below(30), 1 + rng.usize_below(10)],
                };
                let total = m1.len() + m2.len() + m3.len();
                let cuts: Vec<usize> = if variant == 0 { vec![] } else { (0..rng.usize_below(6)).map(|_| 1 + rng.usize_below(total - 1)).collect() };
                let bias = *rng.pick(&[(4u64, 3u64, 2u64), (1, 1, 8), (8, 1, 1), (1, 8, 1)]);
                ctx.guarded(idx, &format!("leftover {l}"), || json!({"leftover": l}), |ctx| {
                    ctx.count("evaluations", 1);
                    ctx.count("class:handshake-leftover", 1);
                    if l > 0 && l < 16 {
                        ctx.count("class:leftover-inside-first-fixed-header", 1);
                    }
                    match run_leftover_case(&mut rng, &sent_raw, l, &cuts, bias, &hs_chunks) {
                        Ok((got, end, fp, notes)) => {
                            ctx.distinct(fp ^ l as u64);
                            compare(ctx, idx, &sent, &got, &end, "handshake-leftover", json!({"leftover": l, "cuts": cuts, "notes": notes}));
                        }
                        Err(e) => ctx.finding(idx, "harness-or-hang", "-", "handshake-leftover", json!({"error": e, "leftover": l})),
                    }
                });
            }
        }
        if ctx.args.shard == 0 {
            ctx.count("leftover_lengths_enumerated", max_l as u64 + 1);
        }
    }
    // (E) real socketpair: libc recvmsg with SCM_RIGHTS, the library's own executor thread
    {
        let m = ctx.budget(if ctx.args.layer == "miri" { 0 } else { 160 }, 6_000);
        if m > 0 && ctx.args.replay.is_none() {
            // warm-up: the first real connection of a process creates process-wide resources (the async-io reactor's
            // epoll/event/timer descriptors, its thread) that legitimately stay; the fd census below starts after them
            let mut rng = Rng::new(0x77a1);
            let warm = vec![(Msg::signal(1, "/w", "w.w", "W").marshal(), Vec::<OwnedFd>::new())];
            let _ = run_real_socket_case(&mut rng, &warm);
            std::thread::sleep(std::time::Duration::from_millis(50));
        }
        for j in 0..m {
            let idx = 7_000_000_000 + j;
            if !ctx.want(idx) {
                continue;
            }
            let mut rng = ctx.rng(idx);
            let nm = 1 + rng.usize_below(10);
            let mut sent_raw: Vec<(Vec<u8>, Vec<OwnedFd>)> = Vec::new();
            for _ in 0..nm {
                let nf = if rng.chance(1, 3) { 1 + rng.usize_below(3) } else { 0 };
                let size_class = match rng.below(20) {
                    0 => 3,
                    1..=3 => 2,
                    4..=8 => 0,
                    _ => 1,
                };
                let msg = gen_stream_msg(&mut rng, nf, size_class);
                let fds: Vec<OwnedFd> = (0..nf).map(|_| rng.pick(&files).as_fd().try_clone_to_owned().unwrap()).collect();
                sent_raw.push((msg.marshal(), fds));
            }
            let sent: Vec<Sent> = sent_raw.iter().map(|(b, f)| Sent { bytes: b.clone(), fd_ids: f.iter().map(|x| dev_ino(x.as_fd())).collect() }).collect();
            let fds_before = vcommon::ctx::open_fd_count();
            ctx.guarded(idx, "real-socket", || json!({"messages": nm}), |ctx| {
                ctx.count("evaluations", 1);
                ctx.count("class:real-socketpair", 1);
                ctx.count("real_socket_messages", nm as u64);
                match run_real_socket_case(&mut rng, &sent_raw) {
                    Ok((got, end)) => {
                        ctx.distinct(fnv(&format!("real|{idx}")));
                        compare(ctx, idx, &sent, &got, &end, "real-socketpair", json!({"messages": nm}));
                    }
                    Err(e) if e.contains("wall-clock guard") => ctx.problem(&format!("C14 real-socket case {idx}: {e}")),
                    Err(e) => ctx.finding(idx, "harness-or-hang", "-", "real-socketpair", json!({"error": e})),
                }
            });
            drop(sent_raw);
            // fd census: nothing may stay open once the connection, the messages and the peer are gone
            // (executor threads of dropped connections exit asynchronously: allow them a moment)
            // (generous: 30 s of polling, so that a loaded machine or a 25x slower valgrind run cannot turn a late thread exit
            // into an alarm; a descriptor still open after that is not "late")
            let mut leaked = 0isize;
            for _ in 0..3000 {
                leaked = vcommon::ctx::open_fd_count() as isize - fds_before as isize;
                if leaked <= 0 {
                    break;
                }
                std::thread::sleep(std::time::Duration::from_millis(10));
            }
            if leaked > 0 {
                ctx.finding(idx, "file-descriptors-left-open", "-", "real-socketpair", json!({"before": fds_before, "leaked": leaked}));
            }
        }
    }
    // (C) a header declaring more than 128 MiB must be refused without reading the message
    if ctx.args.shard == 0 && !only_real {
        for (k, (body_len, fields_len, extra)) in [(0x0800_0000u32, 0u32, 0usize), (0x07ff_fff0, 0x100, 300), (0xffff_ffff, 0, 16), (0, 0x0800_0000, 100), (0x0400_0000, 0x0400_0000, 0)].into_iter().enumerate() {
            let idx = 9_000_000_000 + k as u64;
            if !ctx.want(idx) {
                continue;
            }
            ctx.guarded(idx, "oversize", || json!({"body_len": body_len, "fields_len": fields_len}), |ctx| {
                ctx.count("evaluations", 1);
                ctx.count("class:oversize", 1);
                let mut hdr = vec![b'l', 1, 0, 1];
                hdr.extend_from_slice(&body_len.to_le_bytes());
                hdr.extend_from_slice(&1u32.to_le_bytes());
                hdr.extend_from_slice(&fields_len.to_le_bytes());
                hdr.extend(std::iter::repeat(0u8).take(extra));
                let wire = Wire::new(7);
                let mut sched = Sched::new(Rng::new(idx));
                let conn = match connect_authenticated(&mut sched, &wire) {
                    Ok(c) => c,
                    Err(e) => {
                        ctx.finding(idx, "harness-or-hang", "-", "oversize", json!({"error": e}));
                        return;
                    }
                };
                let end: Rc<RefCell<Option<String>>> = Rc::new(RefCell::new(None));
                let e2 = end.clone();
                let mut stream = MessageStream::from(&conn);
                sched.spawn("consumer", async move {
                    match stream.next().await {
                        Some(Ok(_)) => *e2.borrow_mut() = Some("<a message>".into()),
                        Some(Err(e)) => *e2.borrow_mut() = Some(format!("error: {e}")),
                        None => *e2.borrow_mut() = Some("<end>".into()),
                    }
                });
                wire.stage(&hdr, vec![], &[]);
                // no EOF: a reader that tries to read the announced message would wait forever
                let w2 = wire.clone();
                sched.add_net(Box::new(move || w2.release_one()));
                let start = alloc::window_start();
                let q = sched.run_to_quiescence();
                let (peak, biggest) = alloc::window_end(start);
                let declared = 16u64 + fields_len as u64 + body_len as u64;
                let ended = end.borrow().clone();
                let detail = json!({"declared_total": declared, "stream": ended, "peak_alloc": peak, "largest_alloc": biggest, "quiescent": q});
                match &ended {
                    Some(s) if s.starts_with("error") => {}
                    _ => ctx.finding(idx, "oversize-not-rejected", "-", "oversize", detail.clone()),
                }
                if biggest > 64 << 20 {
                    ctx.finding(idx, "oversize-allocated", "-", "oversize", detail);
                }
            });
        }
    }
}
